//! replay: run JSON cases (one per line on stdin) against the real xml-rs crates built from /repo.
//! Each answer is one JSON line. Panics are caught and reported as {"panic": "..."}.
use serde_json::{json, Value};
use std::io::{BufRead, Write};
use std::panic::{catch_unwind, AssertUnwindSafe};

fn chars(s: &str) -> usize {
    s.chars().count()
}

fn rest_result<T, E: std::fmt::Debug>(input: &str, r: Result<(&str, T), E>) -> Value {
    match r {
        Ok((rest, _)) => json!({"ok": true, "end": chars(input) - chars(rest)}),
        Err(e) => json!({"ok": false, "err": format!("{:?}", e).chars().take(120).collect::<String>()}),
    }
}

mod ops;

fn main() {
    std::panic::set_hook(Box::new(|_| {}));
    let stdin = std::io::stdin();
    let stdout = std::io::stdout();
    for line in stdin.lock().lines() {
        let line = match line {
            Ok(l) => l,
            Err(_) => break,
        };
        if line.trim().is_empty() {
            continue;
        }
        let case: Value = match serde_json::from_str(&line) {
            Ok(v) => v,
            Err(e) => {
                println!("{}", json!({"error": format!("bad case: {}", e)}));
                continue;
            }
        };
        let out = match catch_unwind(AssertUnwindSafe(|| ops::run(&case))) {
            Ok(v) => v,
            Err(p) => {
                let msg = if let Some(s) = p.downcast_ref::<String>() {
                    s.clone()
                } else if let Some(s) = p.downcast_ref::<&str>() {
                    s.to_string()
                } else {
                    "?".to_string()
                };
                json!({"panic": msg})
            }
        };
        let mut o = stdout.lock();
        writeln!(o, "{}", out).unwrap();
        o.flush().unwrap();
    }
}
