use super::{chars, rest_result};
use serde_json::{json, Value};

pub fn run(case: &Value) -> Value {
    let op = case["op"].as_str().unwrap_or("");
    let input = case["input"].as_str().unwrap_or("");
    match op {
        // --- grammar productions that are public -------------------------------------------
        "document" => rest_result(input, xml_parser::document(input)),
        "element" => rest_result(input, xml_parser::element(input)),
        "comment" => rest_result(input, xml_parser::comment(input)),
        "pi" => rest_result(input, xml_parser::pi(input)),
        "cdsect" => rest_result(input, xml_parser::cdsect(input)),
        "attribute" => rest_result(input, xml_parser::attribute(input)),
        "content" => rest_result(input, xml_parser::content(input)),
        "reference" => rest_result(input, xml_parser::reference(input)),
        "version_num" => rest_result(input, xml_parser::version_num(input)),
        "ncname" => rest_result(input, xml_nom::ncname(input)),
        "qname" => rest_result(input, xml_nom::qname(input)),
        "xpath_parse" => rest_result(input, xml_xpath::expr::parse(input)),
        // --- character classifiers ---------------------------------------------------------
        "class" => {
            let c = char::from_u32(case["c"].as_u64().unwrap() as u32).unwrap();
            json!({
                "is_char": xml_nom::xmlchar::is_char(c),
                "is_name_start_char": xml_nom::xmlchar::is_name_start_char(c),
                "is_name_char": xml_nom::xmlchar::is_name_char(c),
                "is_pubid_char": xml_nom::xmlchar::is_pubid_char(c),
                "is_enc_name": xml_nom::xmlchar::is_enc_name(c),
            })
        }
        // --- whole pipeline ---------------------------------------------------------------
        "from_raw" => match xml_dom::XmlDocument::from_raw(input) {
            Ok((rest, doc)) => {
                let printed = format!("{}", doc);
                json!({"ok": true, "end": chars(input) - chars(rest), "printed": printed})
            }
            Err(e) => json!({"ok": false, "err": format!("{:?}", e).chars().take(160).collect::<String>()}),
        },
        "roundtrip" => match xml_dom::XmlDocument::from_raw(input) {
            Ok((rest, doc)) => {
                let printed = format!("{}", doc);
                let second = match xml_dom::XmlDocument::from_raw(printed.as_str()) {
                    Ok((r2, d2)) => json!({"ok": true, "rest": r2, "printed": format!("{}", d2), "equal": d2 == doc}),
                    Err(e) => json!({"ok": false, "err": format!("{:?}", e).chars().take(160).collect::<String>()}),
                };
                json!({"ok": true, "end": chars(input) - chars(rest), "printed": printed, "second": second})
            }
            Err(e) => json!({"ok": false, "err": format!("{:?}", e).chars().take(160).collect::<String>()}),
        },
        "query" => {
            let doc = case["doc"].as_str().unwrap_or("<r/>");
            match xml_dom::XmlDocument::from_raw(doc) {
                Ok((_, d)) => {
                    let mut ctx = xml_xpath::eval::model::Context::default();
                    match xml_xpath::query(d, input, &mut ctx) {
                        Ok(v) => json!({"ok": true, "value": format!("{}", v), "debug": format!("{:?}", v).chars().take(200).collect::<String>()}),
                        Err(e) => json!({"ok": false, "err": format!("{:?}", e).chars().take(160).collect::<String>()}),
                    }
                }
                Err(e) => json!({"ok": false, "doc_err": format!("{:?}", e)}),
            }
        }
        "siblings" => {
            // next_sibling()/previous_sibling() of every child of the root element, as indices into its child list
            use xml_dom::{Document, Node};
            match xml_dom::XmlDocument::from_raw(input) {
                Ok((_, doc)) => {
                    let root = doc.document_element().unwrap();
                    let kids: Vec<xml_dom::XmlNode> = root.child_nodes().iter().collect();
                    let label = |n: &xml_dom::XmlNode| -> String { format!("{}|{}", n.node_name(), n.node_value().ok().flatten().unwrap_or_default()) };
                    let labels: Vec<String> = kids.iter().map(|n| label(n)).collect();
                    let kinds: Vec<String> = kids.iter().map(|n| format!("{:?}", n.node_type())).collect();
                    // nodes are identified by their document-order key (labels may repeat)
                    let orders: Vec<usize> = kids.iter().map(|n| n.order()).collect();
                    let index = |n: Option<xml_dom::XmlNode>| -> i64 {
                        match n {
                            None => -1,
                            Some(n) => orders.iter().position(|o| *o == n.order()).map(|p| p as i64).unwrap_or(-2),
                        }
                    };
                    let next: Vec<i64> = kids.iter().map(|n| index(n.next_sibling())).collect();
                    let prev: Vec<i64> = kids.iter().map(|n| index(n.previous_sibling())).collect();
                    json!({"ok": true, "labels": labels, "kinds": kinds, "next": next, "prev": prev})
                }
                Err(e) => json!({"ok": false, "doc_err": format!("{:?}", e)}),
            }
        }
        "split_siblings" => {
            // split_text(offset) on child `child` of the root element: the child list before and after
            use xml_dom::{Document, Node, TextMut};
            match xml_dom::XmlDocument::from_raw(input) {
                Ok((_, doc)) => {
                    let root = doc.document_element().unwrap();
                    let label = |n: &xml_dom::XmlNode| -> String { format!("{}|{}", n.node_name(), n.node_value().ok().flatten().unwrap_or_default()) };
                    let kids: Vec<xml_dom::XmlNode> = root.child_nodes().iter().collect();
                    let before: Vec<String> = kids.iter().map(|n| label(n)).collect();
                    let kinds: Vec<String> = kids.iter().map(|n| format!("{:?}", n.node_type())).collect();
                    let at = case["child"].as_u64().unwrap_or(0) as usize;
                    let offset = case["offset"].as_u64().unwrap_or(0) as usize;
                    if at >= kids.len() {
                        return json!({"ok": false, "kinds": kinds, "err": "no such child"});
                    }
                    let r = match &kids[at] {
                        xml_dom::XmlNode::Text(t) => t.split_text(offset).map(|n| label(&xml_dom::AsNode::as_node(&n))),
                        xml_dom::XmlNode::CData(t) => t.split_text(offset).map(|n| label(&xml_dom::AsNode::as_node(&n))),
                        _ => return json!({"ok": false, "kinds": kinds, "err": "not a text node"}),
                    };
                    let after: Vec<String> = root.child_nodes().iter().map(|n| label(&n)).collect();
                    match r {
                        Ok(l) => json!({"ok": true, "kinds": kinds, "before": before, "after": after, "returned": l}),
                        Err(e) => json!({"ok": false, "kinds": kinds, "before": before, "after": after, "err": format!("{:?}", e)}),
                    }
                }
                Err(e) => json!({"ok": false, "doc_err": format!("{:?}", e)}),
            }
        }
        "created_parent" => {
            // a node whose parent was made by create_element: parent link, and a move away from that parent
            use xml_dom::{AsNode, Document, DocumentMut, Node, NodeMut};
            let (_, doc) = xml_dom::XmlDocument::from_raw("<r/>").unwrap();
            let root = doc.document_element().unwrap();
            let label = |n: &xml_dom::XmlNode| -> String { n.node_name() };
            let p = doc.create_element("p").unwrap();
            let attach_first = case["attach_first"].as_bool().unwrap_or(true);
            if attach_first {
                root.append_child(p.as_node()).unwrap();
            }
            let c = doc.create_element("c").unwrap();
            let r1 = p.append_child(c.as_node()).is_ok();
            let parent_of_c = c.as_node().parent_node().map(|n| label(&n));
            let r2 = root.append_child(c.as_node()).is_ok();
            let p_children: Vec<String> = p.child_nodes().iter().map(|n| label(&n)).collect();
            let root_children: Vec<String> = root.child_nodes().iter().map(|n| label(&n)).collect();
            let parent_after = c.as_node().parent_node().map(|n| label(&n));
            json!({"ok": true, "append_to_created": r1, "parent_of_c": parent_of_c, "move_ok": r2, "p_children_after_move": p_children,
                   "root_children_after_move": root_children, "parent_of_c_after_move": parent_after, "printed": format!("{}", doc)})
        }
        "in_scope" => {
            // the in-scope namespaces of the innermost element on the first-child chain: sorted (prefix or "xmlns", uri)
            use xml_dom::{Document, Node};
            match xml_dom::XmlDocument::from_raw(input) {
                Ok((_, doc)) => {
                    let mut e = doc.document_element().unwrap();
                    loop {
                        let next = e.child_nodes().iter().find_map(|n| if let xml_dom::XmlNode::Element(c) = n { Some(c) } else { None });
                        match next { Some(c) => e = c, None => break }
                    }
                    match e.in_scope_namespace() {
                        Ok(nss) => {
                            let mut v: Vec<(String, String)> = nss.iter().map(|n| (n.node_name(), n.node_value().ok().flatten().unwrap_or_default())).collect();
                            v.sort();
                            json!({"ok": true, "in_scope": v})
                        }
                        Err(er) => json!({"ok": false, "err": format!("{:?}", er)}),
                    }
                }
                Err(e) => json!({"ok": false, "doc_err": format!("{:?}", e)}),
            }
        }
        "expanded_name" => {
            // translator validation (C10): AsExpandedName of the document element, or of its first attribute that is not a namespace declaration
            use xml_dom::{AsExpandedName, Document, NamedNodeMap, Node};
            match xml_dom::XmlDocument::from_raw(input) {
                Ok((_, doc)) => {
                    let e = doc.document_element().unwrap();
                    let r = if case["kind"].as_str() == Some("attribute") {
                        let attrs = match e.attributes() { Some(a) => a, None => return json!({"ok": false, "err": "no attributes"}) };
                        let mut found = None;
                        for i in 0..attrs.length() {
                            if let Some(a) = attrs.item(i) {
                                let n = a.node_name();
                                if n != "xmlns" && !n.starts_with("xmlns:") { found = Some(a); break; }
                            }
                        }
                        match found { Some(a) => a.as_expanded_name(), None => return json!({"ok": false, "err": "no plain attribute"}) }
                    } else {
                        e.as_expanded_name()
                    };
                    match r {
                        Ok(Some((l, p, u))) => json!({"ok": true, "name": [Some(l), p, u]}),
                        Ok(None) => json!({"ok": true, "name": null}),
                        Err(er) => json!({"ok": false, "err": format!("{:?}", er)}),
                    }
                }
                Err(e) => json!({"ok": false, "doc_err": format!("{:?}", e)}),
            }
        }
        "ns_history" => {
            // translator validation (C10): a history of add_ns / remove_ns calls on a fresh XPath context, then get_ns_uri(query)
            let mut c = xml_xpath::eval::model::Context::default();
            for step in case["ops"].as_array().cloned().unwrap_or_default() {
                let p = step[1].as_str();
                if step[0].as_str() == Some("add") { c.add_ns(p, step[2].as_str().unwrap_or("")); } else { c.remove_ns(p); }
            }
            let got = c.get_ns_uri(case["query"].as_str()).map(|s| s.to_string());
            json!({"ok": true, "uri": got})
        }
        "nametest" => {
            // translator validation (C10): the query `input` on `doc` under the caller's bindings [[prefix, uri], ..]
            let doc = case["doc"].as_str().unwrap_or("<r/>");
            match xml_dom::XmlDocument::from_raw(doc) {
                Ok((_, d)) => {
                    let mut ctx = xml_xpath::eval::model::Context::default();
                    for b in case["ns"].as_array().cloned().unwrap_or_default() {
                        ctx.add_ns(b[0].as_str(), b[1].as_str().unwrap_or(""));
                    }
                    match xml_xpath::query(d, input, &mut ctx) {
                        Ok(v) => json!({"ok": true, "value": format!("{}", v)}),
                        Err(e) => json!({"ok": false, "err": format!("{:?}", e).chars().take(160).collect::<String>()}),
                    }
                }
                Err(e) => json!({"ok": false, "doc_err": format!("{:?}", e)}),
            }
        }
        "attr_order" => {
            // set_attribute on the first child of the root, then: all nodes and attributes in the order XPath sorts them,
            // on the edited document and on a fresh parse of its serialization
            use xml_dom::{Document, ElementMut, Node};
            match xml_dom::XmlDocument::from_raw(input) {
                Ok((_, doc)) => {
                    let top = doc.document_element().unwrap();
                    let p = match top.child_nodes().iter().next() { Some(xml_dom::XmlNode::Element(e)) => e, _ => return json!({"ok": false, "err": "no element child"}) };
                    let name = case["name"].as_str().unwrap_or("n");
                    let r = p.set_attribute(name, "v");
                    let label = |n: &xml_dom::XmlNode| -> String { format!("{}|{}", n.node_name(), n.node_value().ok().flatten().unwrap_or_default()) };
                    let walk = |d: xml_dom::XmlDocument| -> Vec<String> {
                        let mut c = xml_xpath::eval::model::Context::default();
                        match xml_xpath::query(d, "//node() | //@*", &mut c) {
                            Ok(xml_xpath::eval::model::Value::Node(ns)) => ns.iter().map(|n| label(n)).collect(),
                            other => vec![format!("{:?}", other.map(|v| format!("{}", v)))],
                        }
                    };
                    let printed = format!("{}", doc);
                    let edited = walk(doc.clone());
                    let fresh = match xml_dom::XmlDocument::from_raw(printed.as_str()) { Ok((_, d2)) => walk(d2), Err(e) => vec![format!("{:?}", e)] };
                    json!({"ok": r.is_ok(), "err": r.err().map(|e| format!("{:?}", e)), "edited": edited, "fresh": fresh, "printed": printed})
                }
                Err(e) => json!({"ok": false, "doc_err": format!("{:?}", e)}),
            }
        }
        "attr_inuse" => {
            // p.set_attribute_node(an attribute that belongs to <g>): must be refused and change nothing
            use xml_dom::{Document, Element, ElementMut, Node};
            match xml_dom::XmlDocument::from_raw(input) {
                Ok((_, doc)) => {
                    let top = doc.document_element().unwrap();
                    let p = match top.child_nodes().iter().next() { Some(xml_dom::XmlNode::Element(e)) => e, _ => return json!({"ok": false, "err": "no element child"}) };
                    let name = case["name"].as_str().unwrap_or("a0");
                    let used = match top.get_attribute_node(name) { Some(a) => a, None => return json!({"ok": false, "err": "no such attribute on g"}) };
                    let before = format!("{}", doc);
                    let r = p.set_attribute_node(used);
                    let after = format!("{}", doc);
                    json!({"ok": r.is_ok(), "err": r.err().map(|e| format!("{:?}", e)), "printed_before": before, "printed_after": after})
                }
                Err(e) => json!({"ok": false, "doc_err": format!("{:?}", e)}),
            }
        }
        "rebind" => {
            // count(//p:i) with p bound to u1 and then re-bound to u2, against a fresh context with p bound to u2
            match xml_dom::XmlDocument::from_raw(input) {
                Ok((_, doc)) => {
                    let mut c1 = xml_xpath::eval::model::Context::default();
                    c1.add_ns(Some("p"), "u1");
                    c1.add_ns(Some("p"), "u2");
                    let mut c2 = xml_xpath::eval::model::Context::default();
                    c2.add_ns(Some("p"), "u2");
                    let a = xml_xpath::query(doc.clone(), "count(//p:i)", &mut c1).map(|v| format!("{}", v)).unwrap_or_else(|e| format!("{:?}", e));
                    let b = xml_xpath::query(doc.clone(), "count(//p:i)", &mut c2).map(|v| format!("{}", v)).unwrap_or_else(|e| format!("{:?}", e));
                    json!({"ok": true, "rebound": a, "fresh": b})
                }
                Err(e) => json!({"ok": false, "doc_err": format!("{:?}", e)}),
            }
        }
        "mutate" => mutate(case),
        "chardata" => chardata(case),
        "create" => create(case),
        "dom_order" => {
            // insert_before on children of one kind, then: child list order vs the order XPath sorts them in (by order keys)
            use xml_dom::{AsNode, Document, DocumentMut, Node, NodeMut};
            let variant = case["variant"].as_str().unwrap_or("Element");
            let src = match variant {
                "CData" => "<r><![CDATA[c0]]><![CDATA[c1]]></r>",
                "Comment" => "<r><!--c0--><!--c1--></r>",
                _ => "<r><c0/><c1/></r>",
            };
            let (_, doc) = xml_dom::XmlDocument::from_raw(src).unwrap();
            let root = doc.document_element().unwrap();
            let kids: Vec<xml_dom::XmlNode> = root.child_nodes().iter().collect();
            let mover = case["mover"].as_u64().unwrap_or(0) as usize;
            let node = if mover >= kids.len() {
                match variant {
                    "CData" => doc.create_cdata_section("new").as_node(),
                    "Comment" => doc.create_comment("new").as_node(),
                    _ => doc.create_element("new").unwrap().as_node(),
                }
            } else {
                kids[mover].clone()
            };
            let anchor = case["anchor"].as_u64().map(|a| kids[a as usize].clone());
            let r = root.insert_before(node, anchor.as_ref());
            let label = |n: &xml_dom::XmlNode| -> String { let v = n.node_value().ok().flatten().unwrap_or_default(); if v.is_empty() { n.node_name() } else { v } };
            let by_list: Vec<String> = root.child_nodes().iter().map(|n| label(&n)).collect();
            let mut ctx = xml_xpath::eval::model::Context::default();
            let by_keys: Vec<String> = match xml_xpath::query(doc.clone(), "/r/node()", &mut ctx) {
                Ok(xml_xpath::eval::model::Value::Node(ns)) => ns.iter().map(|n| label(n)).collect(),
                other => vec![format!("{:?}", other.map(|v| format!("{:?}", v)))],
            };
            json!({"ok": r.is_ok(), "child_list": by_list, "by_order_keys": by_keys})
        }
        "queries" => {
            // a series of queries against ONE document and ONE context, then each again with a fresh context
            let doc = case["doc"].as_str().unwrap_or("<r/>");
            let exprs: Vec<String> = case["exprs"].as_array().map(|a| a.iter().map(|v| v.as_str().unwrap_or("").to_string()).collect()).unwrap_or_default();
            match xml_dom::XmlDocument::from_raw(doc) {
                Ok((_, d)) => {
                    let mut shared = xml_xpath::eval::model::Context::default();
                    let mut with_shared = vec![];
                    let mut with_fresh = vec![];
                    for e in exprs.iter() {
                        let r = match xml_xpath::query(d.clone(), e.as_str(), &mut shared) {
                            Ok(v) => format!("ok:{:?}", v),
                            Err(er) => format!("err:{:?}", er),
                        };
                        with_shared.push(r.chars().take(160).collect::<String>());
                        let mut fresh = xml_xpath::eval::model::Context::default();
                        let r = match xml_xpath::query(d.clone(), e.as_str(), &mut fresh) {
                            Ok(v) => format!("ok:{:?}", v),
                            Err(er) => format!("err:{:?}", er),
                        };
                        with_fresh.push(r.chars().take(160).collect::<String>());
                    }
                    json!({"shared": with_shared, "fresh": with_fresh, "printed": format!("{}", d)})
                }
                Err(e) => json!({"ok": false, "doc_err": format!("{:?}", e)}),
            }
        }
        "order" => {
            // kernel-level replay of one DocumentOrder step through the verif hook
            let k = case["k"].as_u64().unwrap_or(1) as usize;
            let mover = case["mover"].as_u64().unwrap_or(0) as usize;
            let anchor_id = match case["anchor"].as_u64() { Some(a) => a as usize + 1, None => 9999 };
            let mut o = xml_info::verif_hooks::Order::new(k, 1);
            let before = o.keys();
            let r = match case["what"].as_str().unwrap_or("") {
                "set_order_after" => json!(o.insert_after(anchor_id, mover)),
                "set_order_before" => json!(o.insert_before(anchor_id, mover)),
                "clear_order" => json!(o.remove(mover + 1)),
                "init_order" => json!(o.push(mover).0),
                _ => json!("unknown"),
            };
            json!({"before": before, "result": r, "keys": o.keys()})
        }
        "attr_value" => {
            use xml_dom::{Attr, Document, Element};
            match xml_dom::XmlDocument::from_raw(input) {
                Ok((rest, doc)) => {
                    let root = doc.document_element().unwrap();
                    let name = case["attr"].as_str().unwrap_or("a");
                    match root.get_attribute_node(name) {
                        Some(a) => match a.value() {
                            Ok(v) => json!({"ok": true, "value": v, "rest": rest, "specified": a.specified()}),
                            Err(e) => json!({"ok": false, "err": format!("{:?}", e)}),
                        },
                        None => json!({"ok": false, "err": "no such attribute"}),
                    }
                }
                Err(e) => json!({"ok": false, "doc_err": format!("{:?}", e).chars().take(160).collect::<String>()}),
            }
        }
        _ => json!({"error": format!("unknown op {}", op)}),
    }
}


fn res_unit(r: Result<(), xml_dom::error::Error>) -> Value {
    match r {
        Ok(()) => json!({"ok": true}),
        Err(e) => json!({"ok": false, "err": format!("{:?}", e)}),
    }
}

/// character-data operation on a text / comment / CDATA node that is a child of <r>
/// one tree mutator on the root element of `input`; reports the child list and the navigation views afterwards
fn mutate(case: &Value) -> Value {
    use xml_dom::{AsNode, Document, DocumentMut, Node, NodeMut};
    let input = case["input"].as_str().unwrap_or("<r/>");
    let (_, doc) = match xml_dom::XmlDocument::from_raw(input) {
        Ok(v) => v,
        Err(e) => return json!({"ok": false, "doc_err": format!("{:?}", e)}),
    };
    let top = doc.document_element().unwrap();
    // the element that is mutated: the root element, or ("parent": i) its i-th child
    let root = match case["parent"].as_u64() {
        Some(i) => match top.child_nodes().iter().nth(i as usize) {
            Some(xml_dom::XmlNode::Element(e)) => e,
            _ => return json!({"ok": false, "err": "parent is not an element"}),
        },
        None => top.clone(),
    };
    let label = |n: &xml_dom::XmlNode| -> String { format!("{}|{}", n.node_name(), n.node_value().ok().flatten().unwrap_or_default()) };
    let kids: Vec<xml_dom::XmlNode> = root.child_nodes().iter().collect();
    let before: Vec<String> = kids.iter().map(|n| label(n)).collect();
    let kinds: Vec<String> = kids.iter().map(|n| format!("{:?}", n.node_type())).collect();
    let all_before: Vec<String> = match xml_xpath::query(doc.clone(), "//node()", &mut xml_xpath::eval::model::Context::default()) {
        Ok(xml_xpath::eval::model::Value::Node(ns)) => ns.iter().map(|n| label(n)).collect(),
        _ => vec![],
    };
    let pick = |v: &Value| -> Option<xml_dom::XmlNode> {
        match v["kind"].as_str().unwrap_or("") {
            "child" => kids.get(v["index"].as_u64().unwrap_or(0) as usize).cloned(),
            "grandchild" => kids.get(v["index"].as_u64().unwrap_or(0) as usize).and_then(|k| k.first_child()),
            "self" => Some(root.as_node()),
            "top" => Some(top.as_node()),
            "new-element" => doc.create_element("new").ok().map(|e| e.as_node()),
            "new-subtree" => doc.create_element("new").ok().map(|e| {
                let c = doc.create_element("newchild").unwrap();
                let _ = e.append_child(c.as_node());
                e.as_node()
            }),
            "new-text" => Some(doc.create_text_node("new").as_node()),
            "new-comment" => Some(doc.create_comment("new").as_node()),
            "new-attribute" => doc.create_attribute("new").ok().map(|e| e.as_node()),
            "foreign-element" => {
                let (_, other) = xml_dom::XmlDocument::from_raw("<o/>").unwrap();
                other.create_element("foreign").ok().map(|e| e.as_node())
            }
            _ => None,
        }
    };
    let new = pick(&case["new"]);
    let reference = if case["ref"].is_null() { None } else { pick(&case["ref"]) };
    let action = case["action"].as_str().unwrap_or("");
    let r = match action {
        "insert_before" => match new.clone() { Some(n) => root.insert_before(n, reference.as_ref()), None => return json!({"ok": false, "err": "no new node"}) },
        "append_child" => match new.clone() { Some(n) => root.append_child(n), None => return json!({"ok": false, "err": "no new node"}) },
        "replace_child" => match (new.clone(), reference.clone()) { (Some(n), Some(o)) => root.replace_child(n, &o), _ => return json!({"ok": false, "err": "no node"}) },
        "remove_child" => match reference.clone() { Some(o) => root.remove_child(&o), None => return json!({"ok": false, "err": "no node"}) },
        _ => return json!({"ok": false, "err": "unknown action"}),
    };
    let after_nodes: Vec<xml_dom::XmlNode> = root.child_nodes().iter().collect();
    let after: Vec<String> = after_nodes.iter().map(|n| label(n)).collect();
    let parents_ok = after_nodes.iter().all(|n| n.parent_node().map(|p| label(&p)) == Some(label(&root.as_node())));
    let mut links_ok = root.first_child().map(|n| label(&n)) == after.first().cloned() && root.last_child().map(|n| label(&n)) == after.last().cloned();
    for (i, n) in after_nodes.iter().enumerate() {
        let next = n.next_sibling().map(|x| label(&x));
        let prev = n.previous_sibling().map(|x| label(&x));
        if next != after.get(i + 1).cloned() || prev != (if i == 0 { None } else { after.get(i - 1).cloned() }) {
            links_ok = false;
        }
    }
    let mut ctx = xml_xpath::eval::model::Context::default();
    let qpath = if case["parent"].is_null() { "/r/node()".to_string() } else { format!("/r/node()[{}]/node()", case["parent"].as_u64().unwrap_or(0) + 1) };
    let by_keys: Vec<String> = match xml_xpath::query(doc.clone(), qpath.as_str(), &mut ctx) {
        Ok(xml_xpath::eval::model::Value::Node(ns)) => ns.iter().map(|n| label(n)).collect(),
        other => vec![format!("{:?}", other.map(|v| format!("{:?}", v)))],
    };
    let detached_parent = match (action, reference.as_ref(), new.as_ref()) {
        ("remove_child", Some(o), _) | ("replace_child", Some(o), _) => o.parent_node().map(|p| label(&p)),
        _ => None,
    };
    let new_parent = new.as_ref().and_then(|n| n.parent_node()).map(|p| label(&p));
    let all_after: Vec<String> = match xml_xpath::query(doc.clone(), "//node()", &mut xml_xpath::eval::model::Context::default()) {
        Ok(xml_xpath::eval::model::Value::Node(ns)) => ns.iter().map(|n| label(n)).collect(),
        _ => vec![],
    };
    let _ = (&all_before, &all_after);
    match r {
        Ok(v) => json!({"ok": true, "kinds": kinds, "before": before, "after": after, "returned": label(&v), "parents_ok": parents_ok, "links_ok": links_ok,
                        "by_order_keys": by_keys, "old_parent_after": detached_parent, "new_parent_after": new_parent, "printed": format!("{}", doc),
                        "all_before": all_before, "all_after": all_after}),
        Err(e) => json!({"ok": false, "kinds": kinds, "before": before, "after": after, "err": format!("{:?}", e), "parents_ok": parents_ok, "links_ok": links_ok,
                         "by_order_keys": by_keys, "new_parent_after": new_parent, "printed": format!("{}", doc), "all_before": all_before, "all_after": all_after}),
    }
}

fn chardata(case: &Value) -> Value {
    use xml_dom::{AsNode, CharacterData, CharacterDataMut, Document, DocumentMut, Node, NodeMut, TextMut};
    let kind = case["kind"].as_str().unwrap_or("text");
    let content = case["content"].as_str().unwrap_or("");
    let method = case["method"].as_str().unwrap_or("length");
    let offset = case["offset"].as_u64().unwrap_or(0) as usize;
    let count = case["count"].as_u64().unwrap_or(0) as usize;
    let arg = case["arg"].as_str().unwrap_or("");
    if kind == "expanded" {
        // merged-text view: text followed by a CDATA section under <r>, read as one node
        let h = content.chars().count() / 2;
        let t: String = content.chars().take(h).collect();
        let c: String = content.chars().skip(h).collect();
        let src = format!("<r>{}<![CDATA[{}]]></r>", t, c);
        let ctx = xml_dom::Context::from_text_expanded(true);
        return match xml_dom::XmlDocument::from_raw_with_context(src.as_str(), ctx) {
            Ok((_, d)) => {
                let root = d.document_element().unwrap();
                match root.child_nodes().iter().next() {
                    Some(xml_dom::XmlNode::ExpandedText(n)) => match method {
                        "length" => json!({"ok": true, "value": n.length(), "data": n.data().unwrap_or_default()}),
                        _ => match n.substring_data(offset, count) {
                            Ok(v) => json!({"ok": true, "value": v, "data": n.data().unwrap_or_default()}),
                            Err(e) => json!({"ok": false, "err": format!("{:?}", e), "data": n.data().unwrap_or_default()}),
                        },
                    },
                    other => json!({"error": format!("first child is not merged text: {:?}", other.map(|n| n.node_name()))}),
                }
            }
            Err(e) => json!({"error": format!("{:?}", e)}),
        };
    }
    let (_, doc) = xml_dom::XmlDocument::from_raw("<r/>").unwrap();
    let root = doc.document_element().unwrap();
    macro_rules! run {
        ($node:expr, $split:expr) => {{
            let node = $node;
            root.append_child(node.as_node()).unwrap();
            let mut out = match method {
                "length" => json!({"ok": true, "value": node.length()}),
                "substring_data" => match node.substring_data(offset, count) {
                    Ok(v) => json!({"ok": true, "value": v}),
                    Err(e) => json!({"ok": false, "err": format!("{:?}", e)}),
                },
                "insert_data" => res_unit(node.insert_data(offset, arg)),
                "delete_data" => res_unit(node.delete_data(offset, count)),
                "replace_data" => res_unit(node.replace_data(offset, count, arg)),
                "append_data" => res_unit(node.append_data(arg)),
                "set_data" => res_unit(node.set_data(arg)),
                "split_text" => $split(&node),
                _ => json!({"error": "unknown method"}),
            };
            out["data"] = json!(node.data().unwrap_or_default());
            let printed = format!("{}", doc);
            out["printed"] = json!(printed);
            out["reparse"] = match xml_dom::XmlDocument::from_raw(printed.as_str()) {
                Ok((rest, d2)) => {
                    let kids: Vec<String> = d2.document_element().map(|r| r.child_nodes().iter().map(|c| c.node_value().ok().flatten().unwrap_or_default()).collect()).unwrap_or_default();
                    json!({"ok": rest.is_empty(), "rest": rest, "children": kids, "printed": format!("{}", d2)})
                }
                Err(e) => json!({"ok": false, "err": format!("{:?}", e).chars().take(120).collect::<String>()}),
            };
            out["children"] = json!(root.child_nodes().iter().map(|c| c.node_value().ok().flatten().unwrap_or_default()).collect::<Vec<String>>());
            out
        }};
    }
    match kind {
        "text" => run!(doc.create_text_node(content), |n: &xml_dom::XmlText| match n.split_text(offset) {
            Ok(t) => json!({"ok": true, "value": t.data().unwrap_or_default()}),
            Err(e) => json!({"ok": false, "err": format!("{:?}", e)}),
        }),
        "cdata" => run!(doc.create_cdata_section(content), |n: &xml_dom::XmlCDataSection| match n.split_text(offset) {
            Ok(t) => json!({"ok": true, "value": t.data().unwrap_or_default()}),
            Err(e) => json!({"ok": false, "err": format!("{:?}", e)}),
        }),
        _ => run!(doc.create_comment(content), |_n: &xml_dom::XmlComment| json!({"error": "comments have no split_text"})),
    }
}


/// DOM factories: create_element / create_attribute / create_processing_instruction / create_text_node / ...
fn create(case: &Value) -> Value {
    use xml_dom::{AsNode, Attr, CharacterData, Document, DocumentMut, Element, ElementMut, Node, NodeMut, ProcessingInstruction};
    let what = case["what"].as_str().unwrap_or("");
    let name = case["name"].as_str().unwrap_or("");
    let data = case["data"].as_str().unwrap_or("");
    let (_, doc) = xml_dom::XmlDocument::from_raw("<r/>").unwrap();
    let root = doc.document_element().unwrap();
    let mut out = match what {
        "element" => match doc.create_element(name) {
            Ok(e) => {
                let stored = e.tag_name();
                root.append_child(e.as_node()).unwrap();
                json!({"ok": true, "stored": stored})
            }
            Err(e) => json!({"ok": false, "err": format!("{:?}", e)}),
        },
        "attribute" => match doc.create_attribute(name) {
            Ok(a) => {
                let stored = a.name();
                let r = root.set_attribute_node(a);
                json!({"ok": true, "stored": stored, "attached": r.is_ok()})
            }
            Err(e) => json!({"ok": false, "err": format!("{:?}", e)}),
        },
        "pi" => match doc.create_processing_instruction(name, data) {
            Ok(p) => {
                let stored = p.target();
                let d = p.data();
                root.append_child(p.as_node()).unwrap();
                json!({"ok": true, "stored": stored, "data": d})
            }
            Err(e) => json!({"ok": false, "err": format!("{:?}", e)}),
        },
        "text" => {
            let t = doc.create_text_node(data);
            root.append_child(t.as_node()).unwrap();
            json!({"ok": true, "data": t.data().unwrap_or_default()})
        }
        "comment" => {
            let t = doc.create_comment(data);
            root.append_child(t.as_node()).unwrap();
            json!({"ok": true, "data": t.data().unwrap_or_default()})
        }
        "cdata" => {
            let t = doc.create_cdata_section(data);
            root.append_child(t.as_node()).unwrap();
            json!({"ok": true, "data": t.data().unwrap_or_default()})
        }
        "two_texts" => {
            let a = doc.create_text_node(name);
            let b = doc.create_text_node(data);
            root.append_child(a.as_node()).unwrap();
            root.append_child(b.as_node()).unwrap();
            json!({"ok": true})
        }
        _ => json!({"error": "unknown factory"}),
    };
    let printed = format!("{}", doc);
    out["printed"] = json!(printed);
    out["reparse"] = match xml_dom::XmlDocument::from_raw(printed.as_str()) {
        Ok((rest, d2)) => json!({"ok": rest.is_empty(), "rest": rest, "printed": format!("{}", d2)}),
        Err(e) => json!({"ok": false, "err": format!("{:?}", e).chars().take(120).collect::<String>()}),
    };
    out
}
