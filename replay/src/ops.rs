use super::{chars, rest_result};
use serde_json::{json, Value};

pub fn run(case: &Value) -> Value {
    let op = case["op"].as_str().unwrap_or("");
    let input = case["input"].as_str().unwrap_or("");
    match op {
        // --- grammar productions that are public -------------------------------------------
        "document" => rest_result(input, xml_parser::document(input)),
        "element" => rest_result(input, xml_parser::element(input)),
        "comment" => rest_result(input, xml_parser::comment(input)),
        "pi" => rest_result(input, xml_parser::pi(input)),
        "cdsect" => rest_result(input, xml_parser::cdsect(input)),
        "attribute" => rest_result(input, xml_parser::attribute(input)),
        "content" => rest_result(input, xml_parser::content(input)),
        "reference" => rest_result(input, xml_parser::reference(input)),
        "version_num" => rest_result(input, xml_parser::version_num(input)),
        "ncname" => rest_result(input, xml_nom::ncname(input)),
        "qname" => rest_result(input, xml_nom::qname(input)),
        "xpath_parse" => rest_result(input, xml_xpath::expr::parse(input)),
        // --- character classifiers ---------------------------------------------------------
        "class" => {
            let c = char::from_u32(case["c"].as_u64().unwrap() as u32).unwrap();
            json!({
                "is_char": xml_nom::xmlchar::is_char(c),
                "is_name_start_char": xml_nom::xmlchar::is_name_start_char(c),
                "is_name_char": xml_nom::xmlchar::is_name_char(c),
                "is_pubid_char": xml_nom::xmlchar::is_pubid_char(c),
                "is_enc_name": xml_nom::xmlchar::is_enc_name(c),
            })
        }
        // --- whole pipeline ---------------------------------------------------------------
        "from_raw" => match xml_dom::XmlDocument::from_raw(input) {
            Ok((rest, doc)) => {
                let printed = format!("{}", doc);
                json!({"ok": true, "end": chars(input) - chars(rest), "printed": printed})
            }
            Err(e) => json!({"ok": false, "err": format!("{:?}", e).chars().take(160).collect::<String>()}),
        },
        "roundtrip" => match xml_dom::XmlDocument::from_raw(input) {
            Ok((rest, doc)) => {
                let printed = format!("{}", doc);
                let second = match xml_dom::XmlDocument::from_raw(printed.as_str()) {
                    Ok((r2, d2)) => json!({"ok": true, "rest": r2, "printed": format!("{}", d2), "equal": d2 == doc}),
                    Err(e) => json!({"ok": false, "err": format!("{:?}", e).chars().take(160).collect::<String>()}),
                };
                json!({"ok": true, "end": chars(input) - chars(rest), "printed": printed, "second": second})
            }
            Err(e) => json!({"ok": false, "err": format!("{:?}", e).chars().take(160).collect::<String>()}),
        },
        "query" => {
            let doc = case["doc"].as_str().unwrap_or("<r/>");
            match xml_dom::XmlDocument::from_raw(doc) {
                Ok((_, d)) => {
                    let mut ctx = xml_xpath::eval::model::Context::default();
                    match xml_xpath::query(d, input, &mut ctx) {
                        Ok(v) => json!({"ok": true, "value": format!("{}", v), "debug": format!("{:?}", v).chars().take(200).collect::<String>()}),
                        Err(e) => json!({"ok": false, "err": format!("{:?}", e).chars().take(160).collect::<String>()}),
                    }
                }
                Err(e) => json!({"ok": false, "doc_err": format!("{:?}", e)}),
            }
        }
        _ => json!({"error": format!("unknown op {}", op)}),
    }
}
