#!/usr/bin/env python3
"""regenerates MANIFEST.json from the table below (keeps it valid at all times)"""
import json, os
ROOT = os.path.dirname(os.path.abspath(__file__))
ids = [json.loads(l)["id"] for l in open(os.path.join(ROOT, "properties.jsonl"))]

CHECKS = {
 "C01": dict(
  technique="source-level symbolic execution of the nom grammar (syn dump -> PEG with nom semantics -> QF_BV) + SMT (z3), one query per exact input length; S-kernel execution of Context::entity; counterexamples replayed on the real build",
  category="model_checking",
  text="For every string of <= N Unicode scalar values (N=14 quick / 17 thorough) and every instantiation of the template families (DTD declarations, XML declaration, attributes, PI/comment/CDATA) z3 decides: the strict reference language (XML 1.0 5e + QName syntax, supported profile) is contained in {x : xml_parser::document consumes x and the info-level reference checks pass}. The keyword captures of the grammar (12 keyword -> variant sites, standalone = 'yes', decimal / hexadecimal radix of character references) are compared with the productions. Element content: info XmlElement::node is executed by the S-kernel over a symbolic parse result (head text of 0-2 and tails of 0-1 symbolic characters, white space included, 0-2 cells with an element / comment / CDATA / PI / character reference child): the children built are exactly the non-empty text runs and the child items, in order, characters unchanged. Which declaration a reference denotes: info Context::entity is executed by the S-kernel over <= 3 (quick) / 4 (thorough) declarations with symbolic 1-2 character names and a symbolic queried name - the first declaration with that name, else the predefined entity with its replacement text, else an error. The encoding is regenerated from /repo on each run; any model is replayed through XmlDocument::from_raw before it is reported.",
  note="Bounded: nothing is claimed for longer documents outside the templates. Grammar layer plus the info-level reference checks (character references, entity names incl. the scope of ATTLIST defaults, read structurally from XmlDocumentTypeDeclaration::node) and Context::entity: the rest of item construction, entity expansion into text, DOM views and the captures->infoset mapping are outside. Trusted: nom combinator models (validated against the real parser on the corpus + random mutations on every run), reference grammar (self-tested on its corpus, expat second opinion on ASCII witnesses).",
  design="3/C01"),
 "C02": dict(
  technique="source-level symbolic execution of the nom grammar + info reject rules (syn dump -> QF_BV) + SMT (z3), one query per exact input length; known-finding classes as reference relaxations; counterexamples replayed on the real build",
  category="model_checking",
  text="For every string of <= N scalar values (N=14/17) and every template instantiation z3 decides: document(x) consumes all of x and info accepts => x is in the lenient reference language (tag match, unique attributes - the real unique_att_spec is executed by the S-kernel inside the grammar's verify(many0(..)) -, legal names/chars/char refs, no '<'/'&' in values, comment/CDATA/PI syntax, declared entities, one root, XMLDecl first, reserved PI target). Listed known-finding classes are excluded by switching the corresponding reference constraint off and are re-witnessed and replayed on every run.",
  note="Bounded as C01. The xq/xe callers' rest-is-empty test is not part of this check. Trusted base as C01.",
  design="3/C02"),

 "C03": dict(
  technique="SMT (z3 QF_BV) over the S-grammar encoding of xml_parser::document and its work semantics (saturating entry counters); panic/reject arms of info read from source and mapped to grammar sites; witnesses replayed (from_raw under catch_unwind, gdb breakpoint hit counts)",
  category="model_checking",
  text="For every input of <= N scalar values (N=10 quick / 14 thorough) and for 8/12-character holes inside <!ELEMENT a ..>, an internal subset, an attribute value and element content, z3 decides (a) no accepted input selects a parse-model variant whose arm in info/src/lib.rs is unimplemented!/todo!/panic!, (b) every variant whose arm returns Err is refused by the real code with an error and no panic (one witness per arm replayed), (c) no production is entered more than 8 times at one input position (the signature of exponential re-parsing, e.g. nested content-model groups).",
  note="Partial: stack exhaustion by deep nesting, the Display/IndentedDisplay printers, cyclic entity expansion and panics that need a live item graph (RefCell borrows, DOM unwraps) are outside; panic macros outside parser-variant arms are listed in the evidence, not decided. Entry-count model validated against gdb hit counts on every run.",
  design="3/C03"),
 "C04": dict(
  technique="source-level symbolic execution (S-kernel) of the fmt::Display bodies and escape() composed with the S-grammar encoding of the creating production + SMT (z3); counterexamples replayed through from_raw",
  category="model_checking",
  text="For comment, CDATA, text, PI (no data / empty / data), character reference (both radices), entity reference, NOTATION, ENTITY (value pieces text / char ref / entity ref, external ids, NDATA), attribute (prefix, value pieces, quote selection) and the DOCTYPE header, with every field a symbolic string of <= 3 (quick) / 4 (thorough) scalar values constrained to what the parser can produce, the printer is executed symbolically and z3 decides that the printed sequence is consumed completely by the production that creates the item (for character references: radix and digits captured unchanged; for PIs: the optional data part is used exactly when the item has data, so Some(\"\") and None stay distinct).",
  note="Partial: whole documents, element nesting, PartialEq on items, the DOM delegation and IndentedDisplay are outside; captures other than character references are only checked through acceptance. The ATTLIST printer (prints nothing) is a listed known finding, re-witnessed through a real round trip each run.",
  design="4/C04", engine="S-kernel + S-grammar"),
 "C06": dict(
  technique="SMT (z3 QF_BV) over the S-grammar encoding of xml_xpath::expr::parse and its work semantics; panic/reject arms of the evaluator read from source and mapped to grammar sites; S-kernel execution of the step / sibling-navigation functions over a bounded item graph with symbolic ids; witnesses replayed (query under catch_unwind, gdb hit counts, DOM sibling calls)",
  category="model_checking",
  text="For every expression string of <= N scalar values (N=6 quick / 8 thorough) and 3/4-character holes inside nested parentheses, function calls and predicates, z3 decides (a) no accepted expression selects an expr-model variant whose evaluator arm is unimplemented!/todo!/panic!, (b) variants whose arm returns Err do not panic on the real code, (c) no production is entered more than 8 times at one position (no exponential re-parsing of parenthesised / nested expressions). Two S-kernel obligations cover the navigation sites the property names: eval_step_expr and the axis dispatch of eval_axis_node_test are executed for every reachable context-node kind x ('.', '..', the 13 axes) with the real per-type parent_node bodies - no path panics (the parent of the document, of an attribute or of a namespace node selects nothing); XmlNode::next_sibling_child / previous_sibling_child are executed with the real XmlNode::order / HasContext::order / DocumentOrder::get on parents of every navigable kind whose children (every kind up to 2/3 children, one more over Element/PI/EntityReference) carry symbolic pairwise-distinct ids: the result is exactly the neighbour in the child list, so every sibling walk ends after at most k steps. The arity table of func.rs is compared with XPath 1.0 section 4.",
  note="Partial: evaluation over a whole live document, id() and the scalar functions' panic freedom (C09) are outside this check; info-level parent()/parent_item() and the axis functions' own traversal are stubs in the step obligation. Bounded lengths are small because every unsat verdict on the 12-level XPath grammar is expensive.",
  design="3/C06"),
 "C08": dict(
  technique="SMT (z3 QF_BV) over the S-grammar encoding of xml_xpath::expr::parse against a scannerless XPath 1.0 reference recognizer, one query per exact length plus keyword templates; operator sites checked structurally with solver reachability; eval_predicate executed by the S-kernel (z3 FP); counterexamples replayed",
  category="model_checking",
  text="For every string of <= N scalar values (N=6 quick / 8 thorough) and for templates carrying the long keywords (axis names, processing-instruction, node types, predicates, calls, operator chains) z3 decides both inclusions: every expression of the strict XPath 1.0 reference (optional white space between tokens, abbreviated and unabbreviated steps, node-type tests where a step may begin, redundant parentheses, the longest-token rule) is accepted completely, and everything accepted is in the lenient reference. Every binary operator token sits in the production of its XPath precedence level, operands come from the next level, and each site is reachable. [n] is decided equal to [position() = n] for every f64 n and every position <= 2^53 by symbolic execution of eval_predicate. Each abbreviation (., .., @t, omitted child::, and // inside a path, after a filter expression and at the root) is executed next to its expansion with the axis functions, the filter head and the node tests uninterpreted: the two result term lists are identical.",
  note="Partial: equalities between evaluator runs on whole documents beyond that term equivalence (sorting is left out on both sides) and left-associativity of the evaluator folds are outside. The operator-name-boundary deviation is a listed known finding.",
  design="3/C08", engine="S-grammar + S-kernel"),
 "C09": dict(
  technique="source-level symbolic execution (S-kernel) of xpath func.rs / model.rs / comparison helpers with an XPath 1.0 spec interpreter running in the same path exploration + SMT (z3 FP/BV) per path; counterexamples replayed through xml_xpath::query",
  category="model_checking",
  text="string, concat, starts-with, contains, substring-before/after, substring, string-length, normalize-space, translate, boolean, not, true, false, number, floor, ceiling, round, the operators + - * div mod and unary minus, and = != < <= > >= on scalar operands are executed symbolically from source: strings of exactly n <= 2 (quick) / 3 (thorough) scalar values, EVERY f64 and both booleans. On every path z3 decides equality with the XPath 1.0 result (sections 3.4, 3.5, 4.2-4.4: character counting, substring position rule incl. NaN/infinities, XML white space, round ties toward +inf and -0, IEEE arithmetic with signed zero, coercion rules, number() lexical form) and that no path panics. The function table's arity ranges are compared with section 4.",
  note="Outside: node-set operands, id(), lang(), name functions. Trusted: digits printed for finite non-zero numbers (Rust Display, never an exponent) and the value Rust's dec2flt assigns to an accepted numeral (integers of <= 9 digits are modelled exactly); `mod` is the same uninterpreted fmod on both sides; substring is decided with model::round abstracted, round itself by its own obligation. Known finding neg-zero-to-string is excluded from the inputs and re-witnessed each run.",
  design="4/C09", engine="S-kernel"),
 "C11": dict(
  technique="source-level symbolic execution (S-kernel) of XmlAttribute::normalized_value / normalize_ws / attr_value_from_name with an XML 1.0 3.3.3 spec interpreter in the same path exploration + SMT (z3); item graph replaced by stubs over a symbolic entity table; counterexamples replayed through Attr::value on a generated document",
  category="model_checking",
  text="For attribute values of <= 2 (quick) / 3 (thorough) pieces - text of 1-2 symbolic characters over all of Unicode, a character reference to ANY character, an entity reference - with entity tables of <= 3 entities (text, character references to tab / line feed / 'A', nested references, the same entity reached twice, a diamond) and the declared types undeclared / CDATA / tokenized, z3 decides on every path that the normalized value equals the section 3.3.3 result (literal white space -> #x20, referenced characters unchanged, entity text normalized recursively, trim + collapse of #x20 only for non-CDATA types). Five cyclic entity tables (direct, mutual, closing after a successful nested reference, through three entities) must be refused, not recursed into. The interpreter with its stubs is validated against Attr::value on generated documents each run.",
  note="Partial: locating the ATTLIST declaration for an attribute, materialising defaulted attributes and the specified flag walk the item graph and are outside; ATTLIST parsing is covered by C01's dtd-attlist template; input line-end normalisation is not considered. Pieces, Context::entity and declaration_type are stubs (listed in the evidence).",
  design="4/C11", engine="S-kernel"),
 "C14": dict(
  technique="source-level symbolic execution (S-kernel) of info::DocumentOrder and the HasContext order methods with symbolic ids, anchor, version and caches + SMT (z3 BV64); one inductive step from an arbitrary valid vector; counterexamples replayed on the compiled DocumentOrder through the `verif` hook",
  category="model_checking",
  text="From ANY valid order vector of k <= 2 (quick) / 3 (thorough) attached items with symbolic pairwise-distinct non-zero ids, one detached item, any version and any caches allowed by the cache invariant, one call of set_order_after / set_order_before (symbolic anchor id, any item as mover), clear_order or init_order is executed symbolically through DocumentOrder::{get, insert_after, insert_before, push, remove} and order(). z3 decides on every path that the keys reported afterwards are exactly 1..n in the specified sequence (non-zero, pairwise distinct, strictly increasing along it), that a failing call changes no key, and that the cache invariant holds again - so histories of any length are covered for the vector kernel within k. The same step is decided through the dispatch table of every XmlItem variant (84 obligations), and the interpreter is validated against the compiled DocumentOrder on concrete steps each run. Tree step: for the bounded trees and child mutators listed under C12/C13 (new nodes, subtrees, moves of children and grandchildren, failing calls) z3 decides that after the call the keys of all attached nodes are non-zero and strictly increasing along the pre-order walk of the tree as it then is.",
  note="Partial: attributes and attribute values in the walk, document-level edits and query(edited) = query(re-parsed) over whole documents are outside. Weak::upgrade is assumed to succeed.",
  design="4/C14", engine="S-kernel"),
 "C15": dict(
  technique="source-level symbolic execution (S-kernel) of the DOM character-data mutators and name factories, with the validate-by-reparse checks executed through the S-grammar encoding of the real nom productions + SMT (z3); one inductive step from an arbitrary state of the capture-language invariant; counterexamples replayed through the DOM API with print + re-parse",
  category="model_checking",
  text="Invariant: a text / comment / CDATA node's data is in the capture language Cap(P) of the production that prints and parses it. From ANY state satisfying it (content of exactly n <= 3/4 scalar values, one more for deletions) one insert_data / append_data / replace_data / delete_data / set_data call with any 64-bit offset/count and a symbolic argument (<= 2/3 characters) either fails or re-establishes the invariant (so histories of any length are covered for this invariant within the size bounds). Plus: two adjacent text nodes concatenate inside Cap(text); XmlElement/XmlAttribute/XmlProcessingInstruction::empty accept only a name that is stored as given; the text/comment/CDATA factories do not panic on refusable data.",
  note="Outside: attribute-value piece editing, PI data, element/attribute names set after creation. adjacent-text and factory-unwrap are listed known findings (re-witnessed and replayed each run). Trusted: std models, item construction stubs in the name factories.",
  design="3/C15", engine="S-kernel + S-grammar"),
 "C16": dict(
  technique="source-level symbolic execution (S-kernel: path-by-path interpreter over the syn dump with modelled std) of the real dom/info character-data functions + SMT (z3 BV64) per path; both overflow configurations; counterexamples replayed on debug and release builds",
  category="model_checking",
  text="length, substring_data, insert_data, delete_data, replace_data, append_data, set_data and split_text (bounds check + info split_at) of Text, Comment and CDATASection are executed symbolically down to insert_char_at / delete_char_range and the nom productions behind the check closures, for content of exactly n <= 3 (quick) / 4 (thorough) scalar values over all of Unicode, offset and count ANY 64-bit value, argument <= 1/2 characters, with overflow panicking (debug) and wrapping (release). For every path z3 decides the DOM Level 1 post-condition (IndexSizeErr iff offset > length, count clipped, exact resulting data, character granularity) and that no path panics. length and substring_data are also decided on the merged-text view (XmlExpandedText). split_text's sibling insertion is executed on an element with <= 3/4 children of every kind and symbolic ids through the real insert_after / insert_before / set_order_before / insert_by_id chain: the returned node is the split node's next sibling, every other child keeps its place, the two data concatenate to the original and order() increases along the new child list.",
  note="Outside: split_text under an attribute parent, contents longer than the bound, refusal of arguments (C15). Trusted: the std models in engine/sx/kstd.py and UTF-8 encoding of String; every counterexample is replayed through the public DOM API (factories + operation) before it is reported.",
  design="4/C16", engine="S-kernel"),
 "C18": dict(
  technique="SMT (z3 QF_BV) over char predicates and name productions read from source, every scalar value / every string <= N; Kani/CBMC on the compiled classifiers over the whole char domain; counterexamples replayed",
  category="model_checking",
  text="(1) For each of is_char, is_name_start_char, is_name_char, is_pubid_char, is_enc_name and the *_except wrappers, z3 decides equality with the transcribed production for every Unicode scalar value (complete over the domain); Kani decides the same on the compiled functions for every char. (2) For name, nmtoken, pi_target, enc_name, ncname, qname and every string of exactly L <= N scalar values (N=8 quick / 12 thorough) z3 decides that the production consumes exactly the longest prefix in Name / Nmtoken / PITarget / EncName / NCName / QName.",
  note="Names longer than N are outside. nom leaf/combinator models and helper::take_except as recognised structurally from source are trusted (validated concretely in C01/C02's translator validation). The first-character defect of `name`/`pi_target` is a listed known finding: those two obligations are decided against NameChar+ and the finding is re-witnessed and replayed each run.",
  design="3/C18", engine="S-grammar + Kani"),
 "C19": dict(
  technique="source-level symbolic execution (S-kernel) of eval_filter_expr / eval_axis_node_test with the real Context push/pop methods and nondeterministic stubs for the sub-evaluators + SMT (z3); counterexamples replayed as query series against one shared context",
  category="model_checking",
  text="Context neutrality, the mechanism behind 're-using one evaluation context ... including after an error': for 0..2 (quick) / 0..3 (thorough) predicates, node lists of 0..2/3 opaque nodes, every combination of sub-evaluator outcomes (any boolean, or an error at any call) and an initial stack of depth 0 or 1 with symbolic entries, z3 decides on every path - success or error - that the context's size and position stacks are exactly what they were before the call. The sub-evaluators are these two functions again or context-free, so by induction a later query sees position() and last() as with a fresh context.",
  note="Partial: determinism of parsing, 'a query does not change the document' and namespace bindings are relations between whole runs over a live document and are outside. Sub-evaluators are stubs (listed in the evidence); node order/duplicates are not modelled.",
  design="4/C19", engine="S-kernel"),
 "C07": dict(
  technique="source-level symbolic execution (S-kernel) of eval_union_expr / eval_filtered_loc_expr / eval_filter_expr over opaque nodes with SYMBOLIC order keys and nondeterministic stubs for the sub-evaluators + SMT (z3); union counterexamples replayed as queries on a real document",
  category="model_checking",
  text="Node-set kernel: over a pool of 3 nodes whose order keys are symbolic, pairwise distinct, non-zero 64-bit values, z3 decides for every shape in the bounds that (union) the union of 1-3 document-ordered duplicate-free operand lists holds exactly the operands' nodes, each once, in strictly increasing key order - so A|B = B|A, A|A = A, count(A|B) <= count(A)+count(B); (paths) eval_filtered_loc_expr returns the step results of 1-2/3 context nodes (any order, duplicates) in non-decreasing key order with the same nodes; (filter) (E)[position()=t] selects the t-th node of the primary's list for any 64-bit t, i.e. positional filters on a parenthesised node-set count in the order `union` established.",
  note="Partial: which nodes an axis or node test selects is C05 (not applicable); that order keys follow document order is C14, that every node kind reports its key is C06.s.siblings. Sub-evaluators and XmlNode::order are stubs (listed in the evidence). Pool of 3 nodes, operand lists <= 2/3 nodes.",
  design="4/C07", engine="S-kernel"),
 "C10": dict(
  technique="source-level symbolic execution (S-kernel) of info XmlElement::in_scope_namespace / namespaces over a chain of elements, dom AsExpandedName for XmlElement / XmlAttr, and eval::equal_qname with model::Context::expanded_name, all names and URIs symbolic + SMT (z3); witnesses confirmed by probe queries on real documents",
  category="model_checking",
  text="Namespace kernel: (scope) on chains document -> e1 -> .. -> ed, d <= 2 (quick) / 3 (thorough), with 0-2 declarations per element whose prefix (none or one symbolic character) and URI (empty or one symbolic character) are symbolic, z3 decides that in_scope_namespace of the innermost element holds exactly: for every prefix the nearest enclosing declaration, none when that declaration has an empty URI, and the xml binding; (expanded) over in-scope sets of 0-2 symbolic bindings a prefixed element or attribute name takes the URI bound to its prefix, an unprefixed element the default namespace, an unprefixed attribute NO namespace; (name-test) equal_qname keeps a node iff local parts and namespace URIs are equal under the caller's 0-2 symbolic prefix bindings, and an unbound prefix in the expression is an error - so consistent renaming of prefixes changes nothing.",
  note="Partial: one-character names (comparisons are per character), no declared prefix equal to the literals xml / xmlns, no default binding in the caller's context; namespace nodes as results of the namespace axis, prefix renaming over whole documents and the grammar's recognition of xmlns attributes (C01/C02) are outside. normalized_value, owner_element, Context::node and the dom-level in_scope_namespace (inside `expanded`) are stubs.",
  design="4/C10", engine="S-kernel"),
 "C05": dict(
  technique="source-level symbolic execution (S-kernel) of eval_axis_node_test / eval_node_test with the real dom node_type / node_name dispatch and stubs for the axis functions + SMT (z3); witnesses confirmed by probe queries on a real document",
  category="model_checking",
  text="Node-test kernel only: for every axis (13 named + the two abbreviated forms) x every kind of candidate node (element, attribute, text, CDATA, entity reference, PI, comment, document, namespace) x every node test (*, a QName whose name equality is ANY boolean, node(), text(), comment(), processing-instruction(), processing-instruction('t') with symbolic one-character target and PI name) z3 decides that the candidate is kept iff XPath 1.0 section 2.3 keeps it: type tests by node type, name tests only for nodes of the axis' principal node type (attribute / namespace / element).",
  note="Partial - a kernel of C05, not C05: which nodes an axis delivers, predicates, name equality and namespaces (C10), functions and comparisons over node-sets and whole expressions on whole documents are outside (the scalar function library is C09, node-set order C07, steps that select nothing C06, the grammar C08). Axis functions and equal_qname are stubs.",
  design="4/C05", engine="S-kernel"),
 "C12": dict(
  technique="source-level symbolic execution (S-kernel, with RefCell borrow tracking) of the DOM child mutators over a bounded piece of the item graph with symbolic ids + SMT (z3); one inductive step from an arbitrary valid state; counterexamples replayed through the DOM API",
  category="model_checking",
  text="Link invariant: every node listed in a child list reports that list's owner as its parent, no node is listed twice, a removed or replaced node has no parent. From ANY state document -> G -> P -> k children (k <= 2 quick / 3 thorough, Element/Text/Comment, optionally one grandchild; symbolic pairwise-distinct ids) one call of append_child / insert_before / replace_child / remove_child on P - argument a new node (element, element with a child, text, comment, attribute), a child, the grandchild, P itself, its ancestor or a foreign node; reference none, a child or a stranger - is executed from source down to the child vectors, parent ids and the order vector, and z3 decides on every returning path, success or failure, that the invariant holds again (so it is inductive within the shapes). That next_sibling / previous_sibling agree with the child list is decided under C06.s.siblings.",
  note="Partial: first_child/last_child, document-level invariants (one document element, one doctype), attribute lists, deeper trees and histories that grow beyond the shape bound are outside. owner_document and Context::node are stubs.",
  design="4/C12", engine="S-kernel"),
 "C13": dict(
  technique="source-level symbolic execution (S-kernel, with RefCell borrow tracking) of dom XmlElement::{insert_before, remove_child} and the NodeMut defaults append_child / replace_child over a bounded piece of the item graph with symbolic ids + SMT (z3); counterexamples replayed through the DOM API (real document, real mutator, child list / parent links / sibling links / //node() order afterwards)",
  category="model_checking",
  text="For every state document -> G -> P -> k children (k <= 2 quick / 3 thorough) and every argument/reference choice listed under C12, z3 decides on every path: the outcome is the DOM Level 1 one (WrongDocumentErr for a foreign node, HierarchyRequestErr for P itself, an ancestor or an attribute, NotFoundErr for a reference that is not a child - any of the applicable ones when several apply - otherwise success), after a success the child lists and parent links are exactly the specified ones (a node already in the tree is moved) and the specified node is returned, NO path panics - a RefCell double borrow is a panic path, guards are tracked with statement/`let` lifetimes - and a failing call changes no child list and no parent link and leaves the attached nodes in the same key order. The character-data mutators are C16 (effect) and C15 (validation).",
  note="Partial: attribute mutators, NamedNodeMap, the create_* factories (C15 covers their validation), document / fragment / attribute receivers, the merged-text view (TryFrom for ExpandedText is unimplemented!) and deeper trees are outside. insert_before(x, x) / replace_child(x, x) are left to the implementation by DOM Level 1 and skipped. owner_document and Context::node are stubs.",
  design="4/C13", engine="S-kernel"),
}

NA = {
 "C17": "whole-program runs of the xe/xq binaries over process I/O, composing parser, evaluator, DOM mutation and printer: outside bounded symbolic execution of the code by either engine.",
}
DEFAULT_NA = "check not built yet (construction in progress)"

m = {
 "version": 1,
 "setup_cmd": "./setup.sh",
 "hooks": {"guard": "cargo feature `verif` of xml-info", "enable": "path dependency xml-info = { path = \"/repo/info\", features = [\"verif\"] } in /verif/replay/Cargo.toml",
           "baseline_off_cmd": "cd /repo && cargo test --workspace --no-fail-fast --offline", "source_commits": ["1af260d"], "add_only": True},
 "engines": [
  {"name": "S-grammar", "path": "engine/sx/nomsem.py", "serves_properties": ["C01", "C02", "C03", "C06", "C08", "C18"], "kind_free_text": "symbolic executor for the nom grammars read from /repo via engine/srcdump (syn); z3 QF_BV"},
  {"name": "S-kernel", "path": "engine/sx/kernel.py", "serves_properties": ["C01", "C04", "C05", "C06", "C07", "C09", "C10", "C11", "C12", "C13", "C14", "C15", "C16", "C19"], "kind_free_text": "path-enumerating symbolic interpreter for small Rust functions read from the syn dump (engine/sx/kstd.py = std models); z3"},
  {"name": "Kani", "path": "kani/", "serves_properties": ["C18"], "kind_free_text": "Kani 0.68 / CBMC 6.11 harness crate with path dependencies on /repo crates"},
  {"name": "replay", "path": "replay/", "serves_properties": ["C01", "C02"], "kind_free_text": "Rust driver with path dependencies on /repo crates: replays solver models and validates the translator"},
 ],
 "checks": [],
 "not_applicable": [],
 "notes": "All checks: exit 0 held / exit 1 VIOLATION (after replay on the real build) / exit 2 inconclusive (unsupported construct, solver timeout, model not reproducing, oracle self-test failure).",
}
for i in ids:
    if i in CHECKS:
        c = CHECKS[i]
        m["checks"].append({
            "property_id": i,
            "quick_cmd": "./check %s --tier quick" % i,
            "thorough_cmd": "./check %s --tier thorough" % i,
            "evidence_file": "/verif/evidence/%s.json" % i,
            "replay_cmd_template": "./check %s --replay {path}" % i,
            "engine": c.get("engine", "S-grammar"),
            "level_claimed": {"category": c["category"], "text": c["text"], "design_ref": c["design"]},
            "level_note": c["note"],
            "technique": c["technique"],
        })
    else:
        m["not_applicable"].append({"property_id": i, "reason": NA.get(i, DEFAULT_NA)})
json.dump(m, open(os.path.join(ROOT, "MANIFEST.json"), "w"), indent=1)
print("checks:", [c["property_id"] for c in m["checks"]])
