#!/bin/bash
# MANIFEST.setup_cmd: build the framework from files on disk only (offline)
set -e
cd "$(dirname "$0")"
export CARGO_NET_OFFLINE=true
(cd engine/srcdump && cargo build --offline --quiet)
(cd replay && RUSTFLAGS=-Awarnings cargo build --offline --quiet --target-dir ../build/replay)
python3-vt -c "import z3; print('z3', z3.get_version_string())"
