#!/bin/bash
# runs every quick command on the current tree (regenerates all evidence files).
# The committed evidence must describe the UNCHANGED tree: refuses to run when /repo has uncommitted changes
# (seeded-mutant regression runs use seeded/seedrun.sh, which writes its evidence to a scratch directory instead).
cd "$(dirname "$0")"
if [ -n "$(git -C /repo status --porcelain --untracked-files=no)" ] && [ -z "${VERIF_ALLOW_DIRTY:-}" ]; then
  echo "/repo has uncommitted changes: evidence for commit must come from the clean tree (set VERIF_ALLOW_DIRTY=1 to override)"; exit 2
fi
export VERIF_SEED="${VERIF_SEED:-1}" VERIF_TIER=quick
rc=0
for id in ${@:-C01 C02 C03 C04 C05 C06 C07 C08 C09 C10 C11 C12 C13 C14 C15 C16 C18 C19}; do
  s=$(date +%s)
  rm -f evidence/$id.json
  full=$(./check $id --tier quick 2>&1); r=$?
  out=$(echo "$full" | grep -E "^$id:|VIOLATION" | tail -2 | cut -c1-300)
  e=$(date +%s)
  [ -f evidence/$id.json ] || { out="$out [NO EVIDENCE WRITTEN]"; r=3; }
  [ $r -ne 0 ] && rc=1
  echo "== $id quick: $((e-s)) s exit=$r :: $out"
done
exit $rc
