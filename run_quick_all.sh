#!/bin/bash
# runs every quick command on the current tree (regenerates all evidence files)
cd "$(dirname "$0")"
rc=0
for id in C01 C02 C03 C04 C05 C06 C07 C08 C09 C10 C11 C12 C13 C14 C15 C16 C18 C19; do
  s=$(date +%s)
  out=$(./check $id --tier quick 2>&1 | grep -E "^$id:|VIOLATION" | tail -2 | cut -c1-300); r=$?
  e=$(date +%s)
  echo "== $id quick: $((e-s)) s :: $out"
done
