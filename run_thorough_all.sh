#!/bin/bash
# runs every thorough command of MANIFEST.json one after another and prints wall time + last line
cd "$(dirname "$0")"
for id in C18 C05 C10 C12 C13 C14 C19 C07 C04 C11 C03 C09 C16 C15 C08 C06 C02 C01; do
  s=$(date +%s)
  out=$(./check $id --tier thorough 2>&1 | grep -E "^$id:|VIOLATION" | tail -3 | cut -c1-400)
  e=$(date +%s)
  echo "== $id thorough: $((e-s)) s :: $out"
done
