"""C16 (split_text leaves two adjacent siblings): the sibling insertion of split_text from an arbitrary valid state.

dom XmlText::split_text / XmlCDataSection::split_text with an element parent are executed by the S-kernel together with
everything below them: info split_at, HasChildren::{insert_after, insert_before, append, insert_by_id, child_index,
child_by_index, delete_by_id}, HasParent::ancestor, XmlItem::{id, set_order_before, set_order_after, remove_from_parent,
set_parent_id} and the DocumentOrder vector.

State: an element with k children (every kind up to 2 quick / 3 thorough, one more over Text, CData, Element), the split node (Text
or CDATA, content of 2 symbolic characters) at any position; SYMBOLIC pairwise-distinct non-zero ids, all registered in
the order vector in document order.
Post: the child list afterwards is the old list with the new node directly after the split node (every other child keeps
its place), the new node is the returned one, their data concatenate to the original, and the order keys reported by
order() increase along the new child list.
"""
import time
import itertools
import z3

import common
import kharness as K
from sx import kernel, kstd, sym
from sx.kernel import Enum, Obj, Some, NONE, SVec, SStr, Ok
from sx.sym import And, Or, Not

# XmlItem variant -> info struct, data field
ITEM = {"Text": ("XmlText", "text"), "CData": ("XmlCData", "data"), "Element": ("XmlElement", None), "Comment": ("XmlComment", "comment"),
        "PI": ("XmlProcessingInstruction", None)}
DOMT = {"Text": "XmlText", "CData": "XmlCDataSection"}
N = 2       # characters of the split node


def build(kinds, at):
    """parent element with children of `kinds`; child `at` is the node to split"""
    k = len(kinds)
    ids = [z3.BitVec("id%d" % i, 64) for i in range(k + 3)]      # 0 parent, 1..k children, k+1 the node split_at creates, k+2 the document
    version = z3.BitVec("version", 64)
    # ids come from a counter that starts at 1: far from the top of the range
    cons = [z3.Distinct(*ids)] + [x != 0 for x in ids] + [z3.ULT(x, 1 << 62) for x in ids] + [z3.ULT(version, 1 << 62)]
    ordering = K.mk_obj("DocumentOrder", K.INFO, order=SVec(), version=version)
    registry = []

    def ctx_for(i, registered):
        info = K.mk_obj("ContextInfo", K.INFO, id=ids[i], order_cache=0, order_version=0)
        if registered:
            ordering.fields["order"].append(info)
        return K.mk_obj("Context", K.INFO, info=info, ordering=ordering, registry=registry)
    dctx = ctx_for(k + 2, True)
    pctx = ctx_for(0, True)
    parent = K.mk_obj("XmlElement", K.INFO, children=SVec(), attributes=SVec(), context=pctx, parent_id=Some(ids[k + 2]))
    pitem = K.mk_enum("XmlItem", K.INFO, "Element", parent)
    registry.append((ids[0], pitem))
    document = K.mk_obj("XmlDocument", K.INFO, children=SVec([pitem]), context=Some(dctx))
    registry.append((ids[k + 2], K.mk_enum("XmlItem", K.INFO, "Document", document)))
    s, cs = K.sym_str("s", N)
    cons.append(sym.to_z3(cs))
    items = []
    for i, kind in enumerate(kinds):
        infot, field = ITEM[kind]
        fields = {"context": ctx_for(i + 1, True), "parent_id": Some(ids[0])}
        if kind == "Element":
            fields["children"] = SVec()
            fields["attributes"] = SVec()
        if field:
            fields[field] = SStr(s) if i == at else kernel.from_pystr("x")
        o = K.mk_obj(infot, K.INFO, **fields)
        it = K.mk_enum("XmlItem", K.INFO, kind, o)
        registry.append((ids[i + 1], it))
        items.append(it)
        parent.fields["children"].append(it)
    new_ctx = ctx_for(k + 1, False)
    return parent, items, s, new_ctx, ids, z3.And(*cons), registry, document


def same_item(a, b):
    """two XmlItem values wrapping the same node (Rc identity)"""
    return isinstance(a, Enum) and isinstance(b, Enum) and a.variant == b.variant and a.fields[0] is b.fields[0]


def decide_shape(kinds, at, timeout_s=60):
    I = K.new_interp("debug")
    _, _, _, _, _, cons, _, _ = build(kinds, at)
    I.assume(cons)
    offset = z3.BitVec("offset", 64)
    state = {}
    kind = kinds[at]
    infot, field = ITEM[kind]

    def node_stub(I, text, parent_id, ctx):
        # info::XmlText::node / XmlCData::node: a new item with the next id, not yet in the order vector
        o = K.mk_obj(infot, K.INFO, **{field: SStr(text), "context": state["new_ctx"], "parent_id": parent_id})
        it = K.mk_enum("XmlItem", K.INFO, kind, o)
        state["registry"].append((state["ids"][-2], it))
        state["new_item"] = it
        return it

    def ctx_node(I, ctx, id_):
        for key, it in ctx.fields["registry"]:
            if I.truth(kstd.v_eq(I, key, id_)):
                return Some(it)
        return NONE
    I.stubs["%s::node" % infot] = node_stub
    def add_item(I, ctx, item):
        me = ctx.fields["info"].fields["id"]
        reg = ctx.fields["registry"]
        for k_, ent in enumerate(reg):
            if ent[0] is me or ent[0].eq(me):
                reg[k_] = (ent[0], item)
                return kernel.UNIT
        reg.append((me, item))
        return kernel.UNIT
    I.mstubs = {("Context", "node"): ctx_node, ("Context", "document"): lambda I, c: state["document"], ("Context", "add_item"): add_item}

    def thunk(I):
        parent, items, s, new_ctx, ids, _, registry, document = build(kinds, at)
        state.update(new_ctx=new_ctx, ids=ids, registry=registry, new_item=None, document=document)
        dom = K.mk_obj(DOMT[kind], K.DOM, data=items[at].fields[0])
        r = I.try_repo_method(dom, "split_text", [offset])
        kids = list(parent.fields["children"])
        keys = [I.try_repo_method(it, "order", []) for it in kids]
        return (r, kids, items, state["new_item"], s, keys)
    paths = I.explore(thunk)

    def post(p):
        if p["kind"] == "panic":
            return False
        r, kids, items, new_item, s, keys = p["value"]
        too_far = z3.UGT(offset, N)
        if isinstance(r, Enum) and r.variant == "Err":
            # index-size error: nothing changes
            same = len(kids) == len(items) and all(same_item(a, b) for a, b in zip(kids, items))
            return And(too_far, same)
        if not (isinstance(r, Enum) and r.variant == "Ok") or new_item is None:
            return False
        want = items[:at + 1] + [new_item] + items[at + 1:]
        placed = len(kids) == len(want) and all(same_item(a, b) for a, b in zip(kids, want))
        if not placed:
            return False
        returned = r.fields[0].fields["data"] is new_item.fields[0]
        first = items[at].fields[0].fields[field]
        second = new_item.fields[0].fields[field]
        cases = []
        for a in range(N + 1):
            if len(first) == a and len(second) == N - a:
                eq = And(*[sym.ceq(x.c, y.c) for x, y in zip(list(first) + list(second), s)])
                cases.append(And(sym.to_z3(offset == a) if False else (offset == a), eq))
        inc = And(*[z3.ULT(kernel.to_bv(keys[j]), kernel.to_bv(keys[j + 1])) for j in range(len(keys) - 1)] + [kernel.to_bv(keys[0]) != 0])
        return And(Not(too_far), returned, Or(*cases), inc)
    verdict, info, nq = K.decide(I, paths, post, timeout_s)
    q = nq + I.feas_queries
    if verdict == "sat":
        mdl, p = info
        d = {"offset": K.model_int(mdl, offset), "panic": p.get("msg") if p["kind"] == "panic" else None}
        if p["kind"] == "ret":
            r, kids, items, new_item, s, keys = p["value"]
            d["child_list_after"] = [("new" if new_item is not None and same_item(it, new_item) else
                                      ([j for j, x in enumerate(items) if same_item(it, x)] or ["?"])[0]) for it in kids]
            d["result"] = r.variant if isinstance(r, Enum) else str(r)
        return "sat", d, q, len(paths), K.fn_table(I)
    if verdict != "holds":
        return "unknown", str(info), q, len(paths), K.fn_table(I)
    return "holds", None, q, len(paths), K.fn_table(I)


def work(job):
    kinds, at, timeout_s = job
    t0 = time.time()
    try:
        st, detail, q, npaths, fns = decide_shape(kinds, at, timeout_s)
        return {"job": (kinds, at), "status": st, "detail": detail, "queries": q, "paths": npaths, "fns": fns, "wall": time.time() - t0, "error": None}
    except (kernel.Unsupported, kernel.Panic) as e:
        return {"job": (kinds, at), "status": "error", "error": "%s: %s" % (type(e).__name__, e), "detail": None, "queries": 0, "paths": 0, "fns": {}, "wall": time.time() - t0}


def render(kinds, at):
    def one(k, i):
        if i == at:
            return {"Text": "ab", "CData": "<![CDATA[ab]]>"}[k]
        return {"Element": "<e%d/>", "Text": "t%d", "CData": "<![CDATA[c%d]]>", "Comment": "<!--c%d-->", "PI": "<?p%d?>"}[k] % i
    return "<r>" + "".join(one(k, i) for i, k in enumerate(kinds)) + "</r>"


def judge(case, out):
    if "panic" in out or "died" in out:
        return True
    if case.get("expected_after") is None:
        return bool(out.get("ok"))          # an offset beyond the length must be an index-size error
    if not out.get("ok"):
        return True
    return out.get("after") != case["expected_after"]


def obligations(rep, rp, tier, jobs_n=16):
    import multiprocessing as mp
    kfull = 2 if tier == "quick" else 3
    kmax = kfull + 1
    core = ["Text", "CData", "Element"]
    jobs = []
    for k in range(1, kmax + 1):
        for kinds in itertools.product(list(ITEM) if k <= kfull else core, repeat=k):
            for at in range(k):
                if kinds[at] in DOMT:
                    jobs.append((kinds, at, 60))
    with mp.Pool(min(jobs_n, len(jobs))) as pool:
        results = pool.map(work, jobs, chunksize=8)
    bad = []
    holds = 0
    for res in results:
        rep.queries += res["queries"]
        rep.functions.update(res.get("fns", {}))
        if res["status"] == "holds":
            holds += 1
        elif res["status"] == "sat":
            bad.append(res)
        else:
            rep.inconclusive.append("split siblings %s@%d: %s" % (",".join(res["job"][0]), res["job"][1], res.get("error") or res.get("detail")))
    rep.bounds["split_text_siblings"] = {"children_per_element": "%d over all child kinds, %d over %s" % (kfull, kmax, core), "child_kinds": list(ITEM), "split_node_characters": N, "shapes": len(jobs),
                                         "outside": "attribute parents (attribute values); entity-reference children; more children than the bound"}
    rep.assumptions.append("split_text siblings: Context::node(id) returns the registered item with that id; info::Xml{Text,CData}::node creates an item with a fresh id that is not yet in the order vector; Context::document() returns the document item above the element")
    status = "holds"
    bad.sort(key=lambda r: (len(r["job"][0]), r["job"][1]))
    confirmed = None
    for res in bad[:8]:
        kinds, at = res["job"]
        doc = render(kinds, at)
        off = min(res["detail"].get("offset", 1), 1 << 40)
        rr = rp.run({"op": "split_siblings", "input": doc, "child": at, "offset": off})
        rep.replays += 1
        if rr.get("kinds") is not None and rr.get("kinds") != list(kinds):
            continue        # this child sequence is not what the parser builds from the rendering (adjacent texts merge)
        if off <= N:
            before = rr.get("before") or []
            want = None
            if before:
                name = before[at].split("|")[0]
                want = before[:at] + [name + "|" + "ab"[:off], name + "|" + "ab"[off:]] + before[at + 1:]
            if "panic" in rr or "died" in rr or (want is not None and (not rr.get("ok") or rr.get("after") != want)):
                confirmed = (doc, at, off, rr, want)
                break
        elif "panic" in rr or "died" in rr or rr.get("ok"):
            confirmed = (doc, at, off, rr, None)
            break
    if confirmed:
        doc, at, off, rr, want = confirmed
        status = "violated"
        rep.violation("C16.s.split-siblings", {"op": "split_siblings", "input": doc, "child": at, "offset": off, "property": "C16", "expected_after": want},
                      "split_text(%d) on child %d of %s leaves the children %s, expected %s" % (off, at, common.show(doc), rr.get("after", rr), want if want is not None else "an index-size error"))
    elif bad:
        status = "inconclusive"
        rep.inconclusive.append("split siblings: %d model witnesses (first %s %s) did not reproduce on the real code" % (len(bad), bad[0]["job"], bad[0]["detail"]))
    rep.obligation("C16.s.split-siblings", status, reach="sat", shapes=len(jobs), shapes_holding=holds, shapes_with_witness=len(bad),
                   first_witness=(bad[0]["job"], bad[0]["detail"]) if bad else None)
