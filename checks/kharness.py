"""Shared pieces of the S-kernel harnesses: the dump, stubs that switch to the S-grammar, path -> obligation."""
import z3
import common
from common import REPO
import xmlgram
from sx import nomsem, sym, kernel, kstd
from sx.kernel import Ch, SStr, SVec, Enum, Obj, Some, NONE, Ok, Err, UNIT, mk_obj, mk_enum
from sx.sym import And, Or, Not

INFO = REPO + "/info/src/lib.rs"
DOM = REPO + "/dom/src/lib.rs"
PARSER = REPO + "/parser/src/lib.rs"
XFUNC = REPO + "/xpath/src/eval/func.rs"
XMODEL = REPO + "/xpath/src/eval/model.rs"
XEVAL = REPO + "/xpath/src/eval/mod.rs"

_dump = None
LAST_REACH = False


def dump():
    global _dump
    if _dump is None:
        _dump = nomsem.Dump([INFO, DOM, XFUNC, XMODEL, XEVAL] + xmlgram.GRAMMAR_FILES)
    return _dump


def sym_str(name, n):
    """n symbolic scalar values -> (SStr, constraint)"""
    cs = [z3.BitVec("%s%d" % (name, k), sym.CW) for k in range(n)]
    return SStr(Ch(c) for c in cs), And(*[sym.is_scalar(c) for c in cs])


def grammar_stub(prod):
    """xml_parser::<prod>(s): run the S-grammar on the character list and fork on where it ends.
    Returns Ok((rest, value)) / Err(ParseError). `value` is opaque except for `content`, whose
    `children` list is empty iff the many0 made no iteration."""
    def stub(I, s):
        g = xmlgram.grammar()
        I.used.update({(f, n): h for (f, n), h in g.used_fns.items()})
        inp = sym.Input([ch.c for ch in s])
        run = nomsem.Run(g, inp)
        node = g.production(prod, PARSER)
        ends = run.ends(node, 0)
        head_ends = None
        if prod == "content":
            body = g.body_of(node)
            seq = body
            while seq.kind in ("map", "recognize"):
                seq = seq.kids[0]
            if seq.kind != "seq" or len(seq.kids) != 2:
                raise kernel.Unsupported("content shape")
            head_ends = run.ends(seq.kids[0], 0)
        for e in sorted(ends):
            if I.branch(ends[e], "%s ends at %d" % (prod, e)):
                rest = SStr(s[e:])
                if prod == "content":
                    children = SVec()
                    for h in sorted(head_ends):
                        if I.branch(head_ends[h], "head ends at %d" % h):
                            if e > h:
                                children.append("cell")
                            break
                    val = Obj("Content", {"children": children, "head": None})
                else:
                    val = Obj("Parsed:" + prod, {})
                return Ok((rest, val))
        I.used.update({(f, n): h for (f, n), h in g.used_fns.items()})
        return Err(mk_enum("Error", None, "Parse", SStr()))
    return stub


GRAMMAR_STUBS = {"xml_parser::%s" % p: grammar_stub(p) for p in
                 ("content", "comment", "cdsect", "pi", "element", "attribute", "document", "reference")}


def new_interp(profile="debug", stubs=None, max_paths=6000):
    st = dict(GRAMMAR_STUBS)
    if stubs:
        st.update(stubs)
    I = kernel.Interp(dump(), profile=profile, stubs=st, max_paths=max_paths)
    I.type_files = {"Value": [XMODEL]}
    return I


def fn_table(I):
    out = {}
    for (f, name), h in sorted(I.used.items()):
        out["%s %s" % (f.replace(REPO + "/", ""), name)] = h
    return out


def decide(I, paths, post, timeout_s=120):
    """paths: results of I.explore; post(path) -> bool term that must hold on that path.
    -> ('holds', None) | ('sat', (model, path)) | ('unknown', why)"""
    global LAST_REACH
    n = 0
    # vacuity guard: the harness assumptions together with at least one path condition must be satisfiable
    LAST_REACH = False
    for p in paths:
        s = z3.Solver()
        s.set("timeout", int(timeout_s * 1000))
        for c in I.base:
            s.add(c)
        for c in p["pc"]:
            s.add(c)
        n += 1
        if s.check() == z3.sat:
            LAST_REACH = True
            break
    if paths and not LAST_REACH:
        return "unknown", "vacuous: no path is satisfiable together with the harness assumptions", n
    for p in paths:
        want = post(p)
        if want is True:
            continue
        s = z3.Solver()
        s.set("timeout", int(timeout_s * 1000))
        for c in I.base:
            s.add(c)
        for c in p["pc"]:
            s.add(c)
        s.add(sym.to_z3(Not(want)))
        n += 1
        r = s.check()
        if r == z3.sat:
            return "sat", (s.model(), p), n
        if r != z3.unsat:
            return "unknown", "solver %s" % r, n
    return "holds", None, n


def model_str(m, s):
    out = []
    for ch in s:
        c = ch.c
        out.append(chr(c if isinstance(c, int) else m.eval(c, model_completion=True).as_long()))
    return "".join(out)


def model_int(m, v):
    return v if isinstance(v, int) else m.eval(v, model_completion=True).as_long()


def model_f64(m, v):
    import struct
    if isinstance(v, float):
        return v
    val = m.eval(v, model_completion=True)
    bv = m.eval(z3.fpToIEEEBV(val), model_completion=True)
    # fpToIEEEBV of a NaN is unspecified: normalise
    if z3.is_true(m.eval(z3.fpIsNaN(val), model_completion=True)):
        return float("nan")
    return struct.unpack(">d", struct.pack(">Q", bv.as_long()))[0]
