"""C18: character classes (every scalar value) and name productions (every string <= N).

1. classifiers  is_char / is_name_start_char / is_name_char / is_pubid_char / is_enc_name  and the
   *_except wrappers: the predicate read from nom/src/xmlchar.rs equals the production of XML 1.0 5e
   for every 21-bit value that is a Unicode scalar value  (z3, one query each; the compiled functions are
   decided over the whole domain by the Kani harnesses of kani/src/c18.rs in the thorough tier).
2. name productions: for every string x of exactly L <= N scalar values, the production consumes exactly the
   longest prefix of x that is in the spec language (Name, NCName, QName, Nmtoken, PITarget, EncName).
"""
import multiprocessing as mp
import subprocess
import os
import sys
import time

import common
from common import Inconclusive, show
import z3
import xmlgram
import xmlref
from cfg import Rec, E
from sx import nomsem, sym, replay
from sx.sym import And, Or, Not

XMLCHAR = common.REPO + "/nom/src/xmlchar.rs"
PARSER = common.REPO + "/parser/src/lib.rs"
NOMLIB = common.REPO + "/nom/src/lib.rs"

CLASSIFIERS = {
    "is_char": xmlref.CHAR,
    "is_name_start_char": xmlref.NAME_START,
    "is_name_char": xmlref.NAME_CHAR,
    "is_pubid_char": xmlref.PUBID,
    "is_enc_name": xmlref.ENC_REST,
}


class Lang(Rec):
    """spec languages as 'c[0..j) is in the language' conditions"""

    def __init__(self, inp):
        Rec.__init__(self, inp)
        self.x = xmlref.XmlRef(inp, "lenient")

    def member(self, lang, j):
        x = self.x
        if j == 0:
            return False
        if lang == "Name":
            return x.name_exact(0, j, "name")
        if lang == "NameRelaxed":
            return x.name_exact(0, j, "rname")
        if lang == "NCName":
            return x.name_exact(0, j, "nc")
        if lang == "QName":
            return x.name_exact(0, j, "q")
        if lang == "Nmtoken":
            return And(*[xmlref.is_name_char(self.c(k)) for k in range(j)])
        if lang in ("PITarget", "PITargetRelaxed"):
            base = x.name_exact(0, j, "name" if lang == "PITarget" else "rname")
            if j == 3:
                isxml = And(sym.c_in_str(self.c(0), "Xx"), sym.c_in_str(self.c(1), "Mm"), sym.c_in_str(self.c(2), "Ll"))
                return And(base, Not(isxml))
            return base
        if lang == "EncName":
            return And(sym.cin_ranges(self.c(0), xmlref.ENC_START), *[sym.cin_ranges(self.c(k), xmlref.ENC_REST) for k in range(1, j)])
        raise ValueError(lang)

    def longest(self, lang):
        """{j: cond} : j is the length of the longest prefix in the language (no entry true = none)"""
        mem = [self.member(lang, j) for j in range(self.L + 1)]
        out = {}
        later = False
        for j in range(self.L, -1, -1):
            out[j] = And(mem[j], Not(later))
            later = Or(later, mem[j])
        # PITarget is Name minus a word: the production is applied to the *maximal Name*, then refused if it is the word
        return out


def longest_pitarget(lg, relaxed):
    base = "NameRelaxed" if relaxed else "Name"
    L = lg.L
    nm = lg.longest(base)
    out = {}
    for j, c in nm.items():
        if j == 3:
            isxml = And(sym.c_in_str(lg.c(0), "Xx"), sym.c_in_str(lg.c(1), "Mm"), sym.c_in_str(lg.c(2), "Ll"))
            out[j] = And(c, Not(isxml))
        else:
            out[j] = c
    return out


PRODUCTIONS = [
    # (obligation, file, production, spec language, relaxed language for the known finding or None, known class)
    ("name", PARSER, "name", "Name", "NameRelaxed", "name-first-char"),
    ("nmtoken", PARSER, "nmtoken", "Nmtoken", None, None),
    ("pitarget", PARSER, "pi_target", "PITarget", "PITargetRelaxed", "name-first-char"),
    ("encname", PARSER, "enc_name", "EncName", None, None),
    ("ncname", NOMLIB, "ncname", "NCName", None, None),
    ("qname", NOMLIB, "qname", "QName", None, None),
]

# how a string can be offered to a private production through the public API (for replay)
WRAP = {
    "name": ("<!DOCTYPE a [<!NOTATION %s SYSTEM ''>]><a/>", "from_raw"),
    "nmtoken": ("<!DOCTYPE a [<!ATTLIST a b (%s) #IMPLIED>]><a/>", "from_raw"),
    "pitarget": ("<?%s?><a/>", "from_raw"),
    "encname": ("<?xml version='1.0' encoding='%s'?><a/>", "from_raw"),
    "ncname": ("%s", "ncname"),
    "qname": ("%s", "qname"),
}


def lang_ends(lg, lang):
    if lang == "PITarget":
        return longest_pitarget(lg, False)
    if lang == "PITargetRelaxed":
        return longest_pitarget(lg, True)
    return lg.longest(lang)


def work(job):
    oid, file, prod, lang, relaxed, kclass, L, known, timeout_s, seed = job
    out = {"job": (oid, L), "queries": 0, "solver_s": 0.0, "results": [], "error": None}
    t0 = time.time()
    try:
        g = xmlgram.grammar()
        inp = sym.Input.symbolic(L)
        run = nomsem.Run(g, inp)
        node = g.production(prod, file)
        ends = run.ends(node, 0)
        lg = Lang(inp)
        use_relaxed = relaxed is not None and kclass in known
        spec = lang_ends(lg, relaxed if use_relaxed else lang)
        wf = sym.to_z3(inp.wellformed())

        def differ(spec_ends):
            d = []
            for j in range(L + 1):
                a = ends.get(j, False)
                b = spec_ends.get(j, False)
                d.append(Not(sym.Iff(a, b)))
            return Or(*d)

        def run_q(cond, tag):
            s = sym.solver(seed=seed)
            s.set("timeout", int(timeout_s * 1000))
            s.add(wf, sym.to_z3(cond))
            t = time.time()
            r = s.check()
            out["queries"] += 1
            out["solver_s"] += time.time() - t
            res = {"q": tag, "r": str(r)}
            if r == z3.sat:
                w = inp.from_model(s.model())
                res["witness"] = w
                hits = [j for j, c in ends.items() if z3.is_true(s.model().eval(sym.to_z3(c), model_completion=True))]
                res["impl_end"] = hits[0] if hits else None
            out["results"].append(res)
            return r
        # reachability: the production consumes the whole string
        r = run_q(ends.get(L, False), "reach")
        out["reach"] = str(r)
        out["sample"] = out["results"][-1].get("witness")
        out["results"].pop()
        run_q(differ(spec), "main")
        if use_relaxed:
            strict_spec = lang_ends(lg, lang)
            # inside the known class: differs from the strict language but agrees with the relaxed one
            run_q(And(differ(strict_spec), Not(differ(spec))), "known:" + kclass)
        out["fns"] = common.fn_table(g)
    except nomsem.Unsupported as e:
        out["error"] = "unsupported: %s" % e
    except Exception:
        import traceback
        out["error"] = "exception: " + traceback.format_exc()[-800:]
    out["wall"] = time.time() - t0
    return out


def classifier_obligations(rep, rp, timeout_s):
    g = xmlgram.grammar()
    c = z3.BitVec("c", sym.CW)
    for fname, ranges in CLASSIFIERS.items():
        oid = "C18.s.class.%s" % fname
        try:
            pred = nomsem.Pred(g, {"k": "path", "segs": ["xmlchar", fname], "generics": [None, None]}, {}, XMLCHAR)
            impl = pred(c)
        except nomsem.Unsupported as e:
            rep.obligation(oid, "inconclusive", error=str(e))
            rep.inconclusive.append("%s: %s" % (oid, e))
            continue
        spec = sym.cin_ranges(c, ranges)
        s = sym.solver()
        s.set("timeout", int(timeout_s * 1000))
        s.add(sym.to_z3(sym.is_scalar(c)), sym.to_z3(Not(sym.Iff(impl, spec))))
        t = time.time()
        r = s.check()
        rep.queries += 1
        rep.solver_s += time.time() - t
        if r == z3.unsat:
            rep.obligation(oid, "holds", reach="sat", domain="all 1,112,064 Unicode scalar values")
        elif r == z3.sat:
            v = s.model().eval(c, model_completion=True).as_long()
            rr = rp.run({"op": "class", "c": v})
            rep.replays += 1
            want = any(lo <= v <= hi for lo, hi in ranges)
            if rr.get(fname) != want:
                rep.obligation(oid, "violated", witness="U+%04X" % v)
                rep.violation(oid, {"op": "class", "c": v, "fn": fname, "expect": want},
                              "xmlchar::%s(U+%04X) = %s but the production says %s" % (fname, v, rr.get(fname), want))
            else:
                rep.obligation(oid, "inconclusive")
                rep.inconclusive.append("%s: model U+%04X does not reproduce (%s)" % (oid, v, rr))
        else:
            rep.obligation(oid, "inconclusive")
            rep.inconclusive.append("%s: solver %s" % (oid, r))
    # *_except wrappers: is_X_except(c, e) == is_X(c) && c not in e, for every except-string used in the grammar
    for fname, base in (("is_char_except", "is_char"), ("is_name_char_except", "is_name_char"), ("is_pubid_char_except", "is_pubid_char")):
        for ex in ("<&", "<&\"", "<&'", "%&\"", "%&'", "\"", "'", "-", ":"):
            oid = "C18.s.except.%s[%s]" % (fname, ex)
            try:
                fn = g.dump.fns[(XMLCHAR, fname)]
                impl = g.pv_fn(XMLCHAR, fn, [("char", c), ex])
            except (nomsem.Unsupported, KeyError) as e:
                rep.obligation(oid, "inconclusive", error=str(e))
                rep.inconclusive.append("%s: %s" % (oid, e))
                continue
            spec = And(sym.cin_ranges(c, CLASSIFIERS[base]), Not(sym.c_in_str(c, ex)))
            s = sym.solver()
            s.add(sym.to_z3(sym.is_scalar(c)), sym.to_z3(Not(sym.Iff(impl, spec))))
            r = s.check()
            rep.queries += 1
            if r == z3.unsat:
                rep.obligation(oid, "holds", reach="sat")
            elif r == z3.sat:
                v = s.model().eval(c, model_completion=True).as_long()
                # replay through a production that uses the wrapper is production-specific; report via classifier op
                rep.obligation(oid, "violated", witness="U+%04X" % v)
                rep.violation(oid, {"op": "class", "c": v, "fn": fname, "except": ex},
                              "xmlchar::%s(U+%04X, %r) differs from %s minus the excepted characters" % (fname, v, ex, base))
            else:
                rep.inconclusive.append("%s: solver %s" % (oid, r))
    rep.functions.update(common.fn_table(g))


def kani_classifiers(rep, timeout_s):
    """compiled-code decision over the whole char domain: kani/src/c18.rs, one cargo-kani run for the five harnesses"""
    import re
    kdir = os.path.join(common.ROOT, "kani")
    env = dict(os.environ, CARGO_NET_OFFLINE="true")
    tdir = os.path.join(common.ROOT, "build", "kani")
    names = ["is_char", "is_name_start_char", "is_name_char", "is_pubid_char", "is_enc_name"]
    cmd = ["cargo", "kani", "--target-dir", tdir, "--output-format", "terse"]
    for h in names:
        cmd += ["--harness", "c18_" + h]
    lock = os.path.join(kdir, "Cargo.lock")
    t = time.time()
    try:
        r = subprocess.run(cmd, cwd=kdir, env=env, capture_output=True, text=True, timeout=timeout_s)
        txt = r.stdout + r.stderr
    except subprocess.TimeoutExpired:
        txt = ""
    rep.solver_s += time.time() - t
    parts = re.split(r"Checking harness ", txt)
    verdict = {}
    for part in parts[1:]:
        hn = part.split("...")[0].strip().split("::")[-1]
        if "VERIFICATION:- SUCCESSFUL" in part and "cover properties satisfied" in part and " 0 of 1 cover" not in part:
            verdict[hn] = "ok"
        elif "VERIFICATION:- FAILED" in part:
            verdict[hn] = "failed"
        else:
            verdict[hn] = "unknown"
    for h in names:
        oid = "C18.k.class.%s" % h
        rep.queries += 1
        v = verdict.get("c18_" + h)
        if v == "ok":
            rep.obligation(oid, "holds", reach="sat", engine="kani 0.68 / cbmc on the compiled function, every char value")
        elif v == "failed":
            rep.obligation(oid, "violated-see-source-level-query")
            if not any(x[0] == "C18.s.class.%s" % h for x in rep.violations):
                rep.inconclusive.append("%s: Kani FAILED but the source-level query found no witness to replay" % oid)
        else:
            rep.obligation(oid, "inconclusive")
            rep.inconclusive.append("%s: kani gave no verdict: %s" % (oid, txt[-300:].replace("\n", " ")))
    rep.functions["kani/src/c18.rs harnesses c18_* on compiled xml_nom::xmlchar"] = "cargo kani"


def main():
    args = common.args_for("C18")
    rep = common.Report(args)
    if args.replay:
        def judge(case, out):
            if case["op"] == "class":
                return "expect" in case and out.get(case["fn"]) != case["expect"]
            if case["op"] in ("ncname", "qname"):
                real_end = out.get("end") if out.get("ok") else None
                return real_end == case.get("model_end")
            return (bool(out.get("ok")) and out.get("end") == len(case["input"])) == (case.get("model_end") == len(case.get("candidate", "")))
        return common.replay_generic(args, judge)
    N = {"quick": 8, "thorough": 12}[args.tier]
    timeout_s = {"quick": 120, "thorough": 900}[args.tier]
    rep.bounds = {"classifiers": "whole domain (every Unicode scalar value)", "name_productions_max_len": N,
                  "outside": "names longer than N scalar values"}
    rep.assumptions += [
        "char predicates are read from nom/src/xmlchar.rs (matches! range lists, || chains, is_ascii_* methods, str::contains) and evaluated over a 21-bit vector constrained to scalar values",
        "nom 7.1.3 semantics of split_at_position(1)_complete, recognize, tuple, alt, opt, satisfy, verify(non-empty) and of helper::take_except as recognised structurally from nom/src/helper.rs",
        "spec tables transcribed from XML 1.0 5th ed. productions [2] [4] [4a] [5] [7] [13] [17] [81] and Namespaces in XML [4] [7]",
    ]
    known_open, _ = common.known_findings("C18")
    known = [k["class"] for k in known_open]
    try:
        rp = replay.Replay()
    except replay.ReplayError as e:
        rep.inconclusive.append(str(e))
        return rep.finish()
    classifier_obligations(rep, rp, timeout_s)
    jobs = []
    for oid, file, prod, lang, relaxed, kclass in PRODUCTIONS:
        for L in range(0, N + 1):
            jobs.append((oid, file, prod, lang, relaxed, kclass, L, known, timeout_s, args.seed))
    jobs.sort(key=lambda j: -j[6])
    with mp.Pool(min(args.jobs, len(jobs))) as pool:
        results = pool.map(work, jobs, chunksize=1)
    seen_known = {}
    for res in results:
        name, L = res["job"]
        oid = "C18.g.%s.len%d" % (name, L)
        rep.queries += res["queries"]
        rep.solver_s += res["solver_s"]
        if res["error"]:
            rep.obligation(oid, "inconclusive", error=res["error"])
            rep.inconclusive.append("%s: %s" % (oid, res["error"][:300]))
            continue
        rep.functions.update(res.get("fns", {}))
        status = "holds"
        for r in res["results"]:
            if r["r"] == "unknown":
                status = "inconclusive"
                rep.inconclusive.append("%s: solver unknown" % oid)
            elif r["r"] == "sat":
                w = r["witness"]
                tpl, op = WRAP[name]
                # replay: what does the real production do with w?
                if op in ("ncname", "qname"):
                    rr = rp.run({"op": op, "input": w})
                    real_end = rr.get("end") if rr.get("ok") else None
                    rep.replays += 1
                    if real_end != r["impl_end"]:
                        status = "inconclusive"
                        rep.inconclusive.append("%s: model does not reproduce on %s: model end %s, real %s" % (oid, show(w), r["impl_end"], rr))
                        continue
                else:
                    # private production: observable through a document that embeds w as that kind of name; only
                    # whole-string acceptance is observable this way
                    doc = tpl % w
                    rr = rp.run({"op": "from_raw", "input": doc})
                    rep.replays += 1
                    real_all = bool(rr.get("ok")) and rr.get("end") == len(doc)
                    if (r["impl_end"] == L) != real_all and not any(ch in w for ch in "'\"<>&?)| \t\r\n"):
                        status = "inconclusive"
                        rep.inconclusive.append("%s: model does not reproduce on %s via %s: model end %s, real %s" % (oid, show(w), show(doc), r["impl_end"], rr))
                        continue
                if r["q"].startswith("known:"):
                    seen_known.setdefault(r["q"][6:], (name, w))
                    continue
                status = "violated"
                rep.violation(oid, {"op": op, "input": (tpl % w) if op == "from_raw" else w, "production": name, "candidate": w,
                                    "model_end": r["impl_end"], "property": "C18"},
                              "production %s consumes %s of %s, the %s language says otherwise" % (name, r["impl_end"], show(w), [p[3] for p in PRODUCTIONS if p[0] == name][0]))
        rep.obligation(oid, status, reach=res.get("reach"), sample=res.get("sample"), wall_s=round(res["wall"], 2))
        if res.get("sample") and L in (1, N):
            rep.samples.append({"obligation": oid, "fully_consumed_input": res["sample"]})
    for k in known_open:
        cls = k.get("class")
        if cls in seen_known:
            nm, w = seen_known[cls]
            rep.known_finding(k, "%s class=%s production=%s witness=%s" % (k.get("what", ""), cls, nm, show(w)))
    kani_classifiers(rep, 900)
    rp.close()
    return rep.finish()


if __name__ == "__main__":
    sys.exit(main())
