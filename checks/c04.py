"""C04 (production level): print -> parse round trip of the information items.

For each item type the real `fmt::Display::fmt` body (info/src/lib.rs, with `escape`) is executed by the S-kernel on an
item whose fields are symbolic strings constrained to the capture language of the production that creates the item
(so only states the parser can produce); the printed character sequence is then parsed by the S-grammar encoding of
that production. Obligation: it is accepted with nothing left over and the captured spans are exactly the fields -
hence re-printing the re-parsed item gives the same string (the fix-point half of the property for these shapes).
"""
import sys
import time
import json
import multiprocessing as mp
import z3

import common
from common import show
import kharness as K
import xmlgram
import xmlref
from sx import kernel, kstd, sym, replay, nomsem, active
from sx.kernel import Ch, SStr, SVec, Enum, Obj, Some, NONE, Ok, Err
from sx.sym import And, Or, Not

P = K.PARSER
NOMLIB = common.REPO + "/nom/src/lib.rs"


def lang(prod, chars, file=P, pre="", post=""):
    """condition: pre + chars + post is consumed completely by the production"""
    g = xmlgram.grammar()
    inp = sym.Input([ord(c) for c in pre] + [ch.c for ch in chars] + [ord(c) for c in post])
    run = nomsem.Run(g, inp)
    return run.accepts_all(g.production(prod, file))


def no_both_quotes(strs):
    has_d = Or(*[sym.ceq(ch.c, 0x22) for s in strs for ch in s])
    has_s = Or(*[sym.ceq(ch.c, 0x27) for s in strs for ch in s])
    return Not(And(has_d, has_s))


def S(tag, n):
    return K.sym_str(tag, n)


def opt_s(v):
    return Some(v) if v is not None else NONE


# each builder: (sizes) -> (item Obj, constraint on fields, production, expected spans [(site predicate, start, end)])
def b_comment(n):
    v, c = S("v", n)
    return K.mk_obj("XmlComment", K.INFO, comment=v), And(c, lang("comment", v, pre="<!--", post="-->")), "comment", None


def b_cdata(n):
    v, c = S("v", n)
    return K.mk_obj("XmlCData", K.INFO, data=v), And(c, lang("cdsect", v, pre="<![CDATA[", post="]]>")), "cdsect", None


def b_text(n):
    v, c = S("v", n)
    import c15
    return K.mk_obj("XmlText", K.INFO, text=v), And(c, c15.cap("text", v)), "content", "text-only"


def b_pi(n, m):
    t, ct = S("t", n)
    if m is None:
        content = NONE
        cc = True
        cap = lang("pi", t, pre="<?", post="?>")
    else:
        d, cc = S("d", m)
        content = Some(d)
        # the data the parser captures never starts with white space (multispace1 is greedy) - unless it is empty
        first_ok = True if m == 0 else Not(xmlref.is_ws(d[0].c))
        cap = And(lang("pi", SStr(list(t) + [Ch(0x20)] + list(d)), pre="<?", post="?>"), lang("pi_target", t), first_ok)
    return K.mk_obj("XmlProcessingInstruction", K.INFO, target=t, content=content), And(ct, cc, cap, lang("pi_target", t)), "pi", ("pi", m is not None)


def b_charref(radix, n):
    v, c = S("v", n)
    digits = And(*[sym.cin(ch.c, 0x30, 0x39) if radix == 10 else sym.cin_ranges(ch.c, [(0x30, 0x39), (0x41, 0x46), (0x61, 0x66)]) for ch in v])
    return K.mk_obj("XmlCharReference", K.INFO, num=v, radix=radix, text=SStr()), And(c, digits, n > 0), "reference", ("charref", radix, v)


def b_entref(n):
    v, c = S("v", n)
    return K.mk_obj("XmlUnexpandedEntityReference", K.INFO, name=v), And(c, lang("name", v)), "reference", None


def b_notation(n, pub, sysid):
    nm, c = S("n", n)
    cons = [c, lang("name", nm)]
    p = s = None
    if pub is not None:
        p, cp = S("p", pub)
        cons += [cp, lang("pubid_literal", p, pre="\"", post="\"") if True else True]
    if sysid is not None:
        s, cs = S("s", sysid)
        cons += [cs, Or(lang("system_literal", s, pre="\"", post="\""), lang("system_literal", s, pre="'", post="'"))]
    if p is not None:
        # a PubidLiteral delimited by ' cannot contain ' ; delimited by " it can
        cons.append(Or(lang("pubid_literal", p, pre="\"", post="\""), lang("pubid_literal", p, pre="'", post="'")))
    return K.mk_obj("XmlNotation", K.INFO, name=nm, public_identifier=opt_s(p), system_identifier=opt_s(s)), And(*cons), "notation_decl", None


def entity_value_piece(kind, tag):
    if kind.startswith("T"):
        s, c = S(tag, int(kind[1]))
        # text of an entity value: characters other than % & and the delimiting quote
        body = And(*[And(xmlref.is_char(ch.c), Not(sym.c_in_str(ch.c, "%&"))) for ch in s])
        return K.mk_enum("XmlEntityValue", K.INFO, "Text", s), And(c, body), [s]
    if kind == "C10":
        s, c = S(tag, 2)
        return K.mk_enum("XmlEntityValue", K.INFO, "Character", s, 10), And(c, *[sym.cin(ch.c, 0x30, 0x39) for ch in s]), []
    if kind == "C16":
        s, c = S(tag, 2)
        return K.mk_enum("XmlEntityValue", K.INFO, "Character", s, 16), And(c, *[sym.cin_ranges(ch.c, [(0x30, 0x39), (0x41, 0x46), (0x61, 0x66)]) for ch in s]), []
    if kind == "E":
        s, c = S(tag, 2)
        return K.mk_enum("XmlEntityValue", K.INFO, "Entity", s), And(c, lang("name", s)), []
    if kind == "P":
        # a parameter-entity reference inside an entity value: the parser accepts it (known finding C02 pe-in-entity-value),
        # so the printer has to give it back as one
        s, c = S(tag, 2)
        return K.mk_enum("XmlEntityValue", K.INFO, "Parameter", s), And(c, lang("name", s)), []
    raise ValueError(kind)


def b_entity(n, pieces):
    nm, c = S("n", n)
    vals, cons, texts = SVec(), [c, lang("name", nm)], []
    for k, kind in enumerate(pieces):
        v, cv, t = entity_value_piece(kind, "v%d_" % k)
        vals.append(v)
        cons.append(cv)
        texts += t
    cons.append(no_both_quotes(texts))
    mode = None
    crs = [(k, kind) for k, kind in enumerate(pieces) if kind in ("C10", "C16")]
    if len(crs) == 1:
        k, kind = crs[0]
        mode = ("charref", int(kind[1:]), vals[k].fields[0])
    elif not crs:
        mode = ("refkinds", [vals[k].fields[0] for k, kind in enumerate(pieces) if kind == "P"],
                [vals[k].fields[0] for k, kind in enumerate(pieces) if kind == "E"])
    return K.mk_obj("XmlEntity", K.INFO, name=nm, values=Some(vals), system_identifier=NONE, public_identifier=NONE, notation_name=NONE), And(*cons), "ge_decl", mode


def b_entity_ext(n, sysid, ndata):
    nm, c = S("n", n)
    s, cs = S("s", sysid)
    cons = [c, cs, lang("name", nm), Or(lang("system_literal", s, pre="\"", post="\""), lang("system_literal", s, pre="'", post="'"))]
    nd = NONE
    if ndata is not None:
        d, cd = S("d", ndata)
        nd = Some(d)
        cons += [cd, lang("name", d)]
    return K.mk_obj("XmlEntity", K.INFO, name=nm, values=NONE, system_identifier=Some(s), public_identifier=NONE, notation_name=nd), And(*cons), "ge_decl", None


def attr_piece(kind, tag):
    if kind.startswith("T"):
        s, c = S(tag, int(kind[1]))
        body = And(*[And(xmlref.is_char(ch.c), Not(sym.c_in_str(ch.c, "<&"))) for ch in s])
        o = K.mk_obj("XmlText", K.INFO, text=s)
        return K.mk_enum("XmlAttributeValue", K.INFO, "Text", K.mk_enum("XmlItem", K.INFO, "Text", o)), And(c, body), [s]
    if kind == "C16":
        s, c = S(tag, 2)
        o = K.mk_obj("XmlCharReference", K.INFO, num=s, radix=16, text=SStr())
        return K.mk_enum("XmlAttributeValue", K.INFO, "Char", K.mk_enum("XmlItem", K.INFO, "CharReference", o)), And(c, *[sym.cin_ranges(ch.c, [(0x30, 0x39), (0x41, 0x46), (0x61, 0x66)]) for ch in s]), []
    if kind == "E":
        s, c = S(tag, 2)
        o = K.mk_obj("XmlUnexpandedEntityReference", K.INFO, name=s)
        return K.mk_enum("XmlAttributeValue", K.INFO, "Entity", K.mk_enum("XmlItem", K.INFO, "Unexpanded", o)), And(c, lang("name", s)), []
    raise ValueError(kind)


def b_attribute(n, prefix, pieces):
    nm, c = S("n", n)
    cons = [c, lang("ncname", nm, NOMLIB)]
    pf = NONE
    if prefix is not None:
        p, cp = S("p", prefix)
        pf = Some(p)
        cons += [cp, lang("ncname", p, NOMLIB)]
    vals, texts = SVec(), []
    for k, kind in enumerate(pieces):
        v, cv, t = attr_piece(kind, "v%d_" % k)
        vals.append(v)
        cons.append(cv)
        texts += t
    cons.append(no_both_quotes(texts))
    mode = None
    crs = [k for k, kind in enumerate(pieces) if kind == "C16"]
    if len(crs) == 1:
        mode = ("charref", 16, vals[crs[0]].fields[0].fields[0].fields["num"])
    return K.mk_obj("XmlAttribute", K.INFO, local_name=nm, prefix=pf, values=vals), And(*cons), "attribute", mode


def b_doctype(n, pub, sysid):
    nm, c = S("n", n)
    cons = [c, lang("ncname", nm, NOMLIB)]
    p = s = None
    if sysid is not None:
        s, cs = S("s", sysid)
        cons += [cs, Or(lang("system_literal", s, pre="\"", post="\""), lang("system_literal", s, pre="'", post="'"))]
    if pub is not None:
        p, cp = S("p", pub)
        cons += [cp, Or(lang("pubid_literal", p, pre="\"", post="\""), lang("pubid_literal", p, pre="'", post="'"))]
    return K.mk_obj("XmlDocumentTypeDeclaration", K.INFO, local_name=nm, prefix=NONE, public_identifier=opt_s(p), system_identifier=opt_s(s), children=SVec()), And(*cons), "doctype_decl", None


def b_xmldecl(enc, sd):
    """the XML declaration a document prints: version 1.<digit>, encoding absent or an EncName of `enc` characters,
    standalone absent / yes / no"""
    d, c = S("v", 1)
    cons = [c, sym.cin_ranges(d[0].c, [(0x30, 0x39)])]
    version = SStr(list(kernel.from_pystr("1.")) + list(d))
    e = SStr()
    if enc:
        e, ce = S("e", enc)
        cons += [ce, lang("enc_name", e)]
    standalone = NONE if sd is None else Some(sd)
    doc = K.mk_obj("XmlDocument", K.INFO, children=SVec(), base_uri=SStr(), encoding=SStr(e), standalone=standalone, version=Some(version),
                   all_declarations_processed=True, context=NONE)
    return doc, And(*cons), "xml_decl", ("xmldecl", enc > 0, sd)


def cases(tier):
    n = 2 if tier == "quick" else 3
    out = []
    for enc in (0, 1, 2):
        for sd in (None, True, False):
            out.append(("xmldecl", b_xmldecl, (enc, sd)))
    for k in range(0, n + 2):
        out.append(("comment", b_comment, (k,)))
        out.append(("cdata", b_cdata, (k,)))
        out.append(("text", b_text, (k,)))
    for t in range(1, n + 1):
        out.append(("pi", b_pi, (t, None)))
        for m in range(0, n + 1):
            out.append(("pi", b_pi, (t, m)))
    for k in range(1, 4):
        out.append(("charref10", b_charref, (10, k)))
        out.append(("charref16", b_charref, (16, k)))
    for k in range(1, n + 1):
        out.append(("entref", b_entref, (k,)))
    for pub, s in ((None, 1), (1, 1), (2, 0), (1, None), (None, 2)):
        out.append(("notation", b_notation, (1, pub, s)))
        out.append(("doctype", b_doctype, (1, pub, s))) if s is not None else None
    out.append(("doctype", b_doctype, (2, None, None)))
    for pieces in ((), ("T1",), ("T2",), ("C10",), ("C16",), ("E",), ("T1", "C16"), ("C16", "T1"), ("T1", "E", "T1"), ("P",), ("T1", "P", "T1"), ("P", "E"), ("E", "P")):
        out.append(("entity", b_entity, (1, pieces)))
    out.append(("entity-ext", b_entity_ext, (1, 1, None)))
    out.append(("entity-ext", b_entity_ext, (1, 1, 1)))
    for prefix in (None, 1):
        for pieces in ((), ("T1",), ("T2",), ("C16",), ("E",), ("T1", "C16"), ("T1", "E", "T1")):
            out.append(("attribute", b_attribute, (1, prefix, pieces)))
    return out


def work(job):
    name, idx, tier, timeout_s = job
    builder, sizes = [(b, s) for (nm, b, s) in cases(tier)][idx]
    out = {"job": (name, str(sizes)), "status": "holds", "paths": 0, "queries": 0, "error": None}
    t0 = time.time()
    try:
        I = K.new_interp("debug")
        item, cons, prod, mode = builder(*sizes)
        I.assume(sym.to_z3(cons))
        probe = item

        def thunk(I):
            it, _, _, _ = builder(*sizes)
            return I.call_display(it)
        paths = I.explore(thunk)
        out["paths"] = len(paths)
        g = xmlgram.grammar()

        def post(p):
            if p["kind"] == "panic":
                return False
            printed = p["value"]
            inp = sym.Input([ch.c for ch in printed])
            run = nomsem.Run(g, inp)
            node = g.production(prod, P)
            acc = run.accepts_all(node)
            if isinstance(mode, tuple) and mode[0] == "charref":
                # the re-parsed character reference has the same radix and the same digits
                _, radix, digits = mode
                cr = g.production("char_ref", P)
                cls = active.find_nodes(g, cr, lambda n: n.kind == "class1" and isinstance(n.arg, nomsem.RangesPred))
                by_radix = {}
                for n in cls:
                    by_radix[10 if sorted(n.arg.ranges) == [(0x30, 0x39)] else 16] = n
                act = active.activation(run, node, acc)
                same, other = [], []
                for (nid, q), (n, a) in act.items():
                    for rdx, dn in by_radix.items():
                        if nid == dn.id:
                            for e, ce in run.ends(n, q).items():
                                if rdx == radix:
                                    if e - q == len(digits):
                                        same.append(And(a, ce, *[sym.ceq(inp[q + d], digits[d].c) for d in range(len(digits))]))
                                else:
                                    other.append(And(a, ce))
                acc = And(acc, Or(*same), Not(Or(*other)))
            if isinstance(mode, tuple) and mode[0] == "refkinds":
                # every reference comes back as the kind it was: the parameter-entity alternative of EntityValue is taken
                # (with the same name) exactly as often as the item has Parameter pieces, the Reference alternative
                # exactly as often as it has Entity pieces (<= 1 of each kind per case, so "iff" + name equality)
                _, pnames, enames = mode
                evp = g.production("entity_value", P)
                act = active.activation(run, node, acc)
                for target, names in (("pe_reference", pnames), ("reference", enames)):
                    refs = active.find_nodes(g, evp, lambda n: n.kind == "ref" and n.arg[1] == target)
                    if not refs or len(names) > 1:
                        raise nomsem.Unsupported("entity_value production shape")
                    hits = []
                    for (nid, q), (n, a) in act.items():
                        if any(nid == r.id for r in refs):
                            for e, ce in run.ends(n, q).items():
                                if e is None or e is False:
                                    continue
                                if names:
                                    nm = names[0]
                                    if e - q == len(nm) + 2:
                                        hits.append(And(a, ce, *[sym.ceq(inp[q + 1 + d], nm[d].c) for d in range(len(nm))]))
                                else:
                                    hits.append(And(a, ce))
                    acc = And(acc, Or(*hits) if names else Not(Or(*hits)))
            if isinstance(mode, tuple) and mode[0] == "pi":
                # Some("") and None print differently and must re-parse to what they were: the optional data part of
                # the production is used iff the item has data
                opts = active.find_nodes(g, node, lambda n: n.kind == "opt")
                if len(opts) != 1:
                    raise nomsem.Unsupported("pi production shape")
                inner = opts[0].kids[0]
                act = active.activation(run, node, acc)
                used = Or(*[a for (nid, q), (n, a) in act.items() if nid == inner.id])
                acc = And(acc, used if mode[1] else Not(used))
            if isinstance(mode, tuple) and mode[0] == "xmldecl":
                # encoding and standalone come back exactly as the item has them: the optional parts are used iff present,
                # and the 'yes' / 'no' alternative that is taken is the item's value
                _, has_enc, sd = mode
                act = active.activation(run, node, acc)
                enc_refs = active.find_nodes(g, node, lambda n: n.kind == "ref" and n.arg[1] == "encoding_decl")
                sd_refs = active.find_nodes(g, node, lambda n: n.kind == "ref" and n.arg[1] == "sd_decl")
                if len(enc_refs) != 1 or len(sd_refs) != 1:
                    raise nomsem.Unsupported("xml_decl production shape")
                enc_used = Or(*[a for (nid, q), (n, a) in act.items() if nid == enc_refs[0].id and n is enc_refs[0]] or [False])
                sd_used = Or(*[a for (nid, q), (n, a) in act.items() if nid == sd_refs[0].id] or [False])
                enc_used = Or(*[And(a, run.ends(n, q).ok()) for (nid, q), (n, a) in act.items() if nid == enc_refs[0].id] or [False])
                sd_used = Or(*[And(a, run.ends(n, q).ok()) for (nid, q), (n, a) in act.items() if nid == sd_refs[0].id] or [False])
                conds = [acc, enc_used if has_enc else Not(enc_used), sd_used if sd is not None else Not(sd_used)]
                if sd is not None:
                    sdp = g.production("sd_decl", P)
                    yes = active.find_nodes(g, sdp, lambda n: n.kind == "tag" and n.arg == "yes")
                    no = active.find_nodes(g, sdp, lambda n: n.kind == "tag" and n.arg == "no")
                    yes_used = Or(*[a for (nid, q), (n, a) in act.items() if any(nid == y.id for y in yes)] or [False])
                    no_used = Or(*[a for (nid, q), (n, a) in act.items() if any(nid == y.id for y in no)] or [False])
                    conds += [yes_used if sd else Not(yes_used), no_used if not sd else Not(no_used)]
                acc = And(*conds)
            if mode == "text-only":
                body = g.body_of(node)
                seq = body
                while seq.kind in ("map", "recognize"):
                    seq = seq.kids[0]
                acc = And(acc, run.ends(seq.kids[0], 0).get(inp.L, False))
            return acc
        verdict, info, nq = K.decide(I, paths, post, timeout_s)
        out["queries"] = nq + I.feas_queries
        out["fns"] = K.fn_table(I)
        out["fns"].update(common.fn_table(g))
        if verdict == "sat":
            mdl, p = info
            out["status"] = "sat"
            out["witness"] = {"item": name, "sizes": str(sizes), "printed": K.model_str(mdl, p["value"]) if p["kind"] != "panic" else None,
                              "panic": p.get("msg"), "production": prod}
            if name == "xmldecl":
                ver = K.model_str(mdl, probe.fields["version"].fields[0])
                enc = K.model_str(mdl, probe.fields["encoding"])
                sd = probe.fields["standalone"]
                out["witness"]["source"] = "<?xml version='%s'%s%s?>" % (ver, (" encoding='%s'" % enc) if enc else "",
                                                                          "" if sd.variant == "None" else (" standalone='%s'" % ("yes" if sd.fields[0] is True else "no")))
            if name == "entity" and probe.fields["values"].variant == "Some":
                # the declaration as a document author writes it (each piece in its own syntax)
                parts = []
                for v in probe.fields["values"].fields[0]:
                    txt = K.model_str(mdl, v.fields[0])
                    if v.variant == "Text":
                        parts.append(txt)
                    elif v.variant == "Entity":
                        parts.append("&%s;" % txt)
                    elif v.variant == "Parameter":
                        parts.append("%%%s;" % txt)
                    else:
                        parts.append(("&#%s;" if v.fields[1] == 10 else "&#x%s;") % txt)
                body = "".join(parts)
                q = "'" if '"' in body else '"'
                out["witness"]["source"] = "<!ENTITY %s %s%s%s>" % (K.model_str(mdl, probe.fields["name"]), q, body, q)
            if name == "pi":
                tgt = K.model_str(mdl, probe.fields["target"])
                cnt = probe.fields["content"]
                out["witness"]["source"] = "<?%s?>" % tgt if cnt.variant == "None" else "<?%s %s?>" % (tgt, K.model_str(mdl, cnt.fields[0]))
        elif verdict == "unknown":
            out["status"] = "unknown"
            out["error"] = info
    except (kernel.Unsupported, nomsem.Unsupported) as e:
        out["status"] = "unsupported"
        out["error"] = str(e)
    except Exception:
        import traceback
        out["status"] = "unsupported"
        out["error"] = "exception: " + traceback.format_exc()[-700:]
    out["wall"] = time.time() - t0
    return out


# how a printed item is embedded in a document for replay, and what must come back
EMBED = {"xmldecl": "%s<r/>", "comment": "<r>%s</r>", "cdata": "<r>%s</r>", "text": "<r>%s</r>", "pi": "<r>%s</r>", "charref10": "<r>%s</r>", "charref16": "<r>%s</r>",
         "entref": None, "notation": "<!DOCTYPE r [%s]><r/>", "doctype": "%s<r/>", "entity": "<!DOCTYPE r [%s]><r/>", "entity-ext": "<!DOCTYPE r [%s]><r/>",
         "attribute": "<r %s/>"}


def main():
    args = common.args_for("C04")
    rep = common.Report(args)
    try:
        rp = replay.Replay()
    except replay.ReplayError as e:
        rep.inconclusive.append(str(e))
        return rep.finish()
    if args.replay:
        case = json.load(open(args.replay))
        rr = rp.run({"op": "roundtrip", "input": case["input"]})
        print("replay %s -> %s" % (show(case["input"]), str(rr)[:300]))
        bad = not rr.get("ok") or not rr.get("second", {}).get("ok") or rr.get("second", {}).get("printed") != rr.get("printed") or rr.get("second", {}).get("equal") is False
        if bad:
            print("VIOLATION property=C04 replay=%s" % args.replay)
            return 1
        print("does not reproduce on the current tree")
        return 0
    timeout_s = 120 if args.tier == "quick" else 900
    rep.bounds = {"fields": "<= %d scalar values each, constrained to the capture language of the creating production" % (3 if args.tier == "quick" else 4),
                  "items": sorted(set(c[0] for c in cases(args.tier))),
                  "outside": "whole documents and nesting (elements with children), ATTLIST / element declarations, PartialEq on items, the DOM delegation, IndentedDisplay"}
    rep.assumptions += ["an item's fields are in the capture language of the production that creates it (what the parser can produce)",
                        "format!/write! with {} holes is concatenation of Display renderings; std models of engine/sx/kstd.py"]
    known_open, _ = common.known_findings("C04")
    cs = cases(args.tier)
    jobs = [(nm, i, args.tier, timeout_s) for i, (nm, b, s) in enumerate(cs)]
    with mp.Pool(args.jobs) as pool:
        results = pool.map(work, jobs, chunksize=2)
    reported = set()
    for res in results:
        name, sizes = res["job"]
        oid = "C04.s.roundtrip.%s%s" % (name, sizes.replace(" ", ""))
        rep.queries += res["queries"]
        rep.extra["paths"] = rep.extra.get("paths", 0) + res["paths"]
        rep.functions.update(res.get("fns", {}))
        if res["status"] in ("unsupported", "unknown"):
            rep.obligation(oid, "inconclusive", error=res["error"])
            rep.inconclusive.append("%s: %s" % (oid, str(res["error"])[:300]))
            continue
        if res["status"] == "holds":
            rep.obligation(oid, "holds", reach="sat" if res["paths"] else "unsat", paths=res["paths"], wall_s=round(res["wall"], 2))
            continue
        w = res["witness"]
        emb = EMBED.get(name)
        if emb is None or w["printed"] is None:
            rep.obligation(oid, "inconclusive", witness=w)
            rep.inconclusive.append("%s: witness %s cannot be replayed through a document" % (oid, w))
            continue
        if w.get("source"):
            # the item as the parser produces it from `source`: print it, parse again, compare
            doc = emb % w["source"]
            rr = rp.run({"op": "roundtrip", "input": doc})
            rep.replays += 1
            sec = rr.get("second", {})
            if rr.get("ok") and (not sec.get("ok") or not sec.get("equal") or sec.get("printed") != rr.get("printed")):
                rep.obligation(oid, "violated", witness=w)
                if name not in reported:
                    reported.add(name)
                    rep.violation(oid, {"op": "roundtrip", "input": doc, "item": name, "property": "C04"},
                                  "%s prints as %s, which re-parses to a different document (equal=%s)" % (show(doc), show(rr.get("printed", "")), sec.get("equal")))
                else:
                    rep.violations.append((oid, None, ""))
                continue
        doc = emb % w["printed"]
        # the printed form is not accepted by its production: a document containing it does not re-parse
        rr = rp.run({"op": "from_raw", "input": doc})
        rep.replays += 1
        accepted = bool(rr.get("ok")) and rr.get("end") == len(doc)
        if accepted:
            rep.obligation(oid, "inconclusive", witness=w)
            rep.inconclusive.append("%s: model says %s is not re-parsed, but the real parser accepts %s" % (oid, show(w["printed"]), show(doc)))
            continue
        rep.obligation(oid, "violated", witness=w)
        if name not in reported:
            reported.add(name)
            rep.violation(oid, {"op": "from_raw", "input": doc, "item": name, "property": "C04"},
                          "a %s item the parser can produce prints as %s, which is not accepted by `%s`" % (name, show(w["printed"]), w["production"]))
        else:
            rep.violations.append((oid, None, ""))
    # known finding: the ATTLIST printer
    kf = [k for k in known_open if k.get("class") == "attlist-not-printed"]
    doc = "<!DOCTYPE r [<!ATTLIST r a CDATA #IMPLIED>]><r/>"
    rr = rp.run({"op": "roundtrip", "input": doc})
    rep.replays += 1
    lost = rr.get("ok") and "ATTLIST" not in rr.get("printed", "")
    if lost and kf:
        rep.obligation("C04.s.roundtrip.attlist", "known-finding")
        rep.known_finding(kf[0], "%s class=attlist-not-printed witness=%s -> %s" % (kf[0].get("what", ""), doc, rr.get("printed")))
    elif lost:
        rep.obligation("C04.s.roundtrip.attlist", "violated")
        rep.violation("C04.s.roundtrip.attlist", {"op": "roundtrip", "input": doc, "property": "C04"}, "the ATTLIST declaration is not printed: %s" % rr.get("printed"))
    else:
        rep.obligation("C04.s.roundtrip.attlist", "holds", reach="sat")
    rep.samples += [{"obligation": r["job"], "paths": r["paths"]} for r in results[:6]]
    rp.close()
    return rep.finish()


if __name__ == "__main__":
    sys.exit(main())
