"""Implementation-side and reference-side encodings of "this input is a completely parsed document"."""
import json
import z3
from common import REPO, Inconclusive
from sx import nomsem, sym, active
from sx.sym import And, Or, Not
import xmlref

GRAMMAR_FILES = [REPO + "/parser/src/lib.rs", REPO + "/parser/src/model.rs", REPO + "/nom/src/lib.rs", REPO + "/nom/src/xmlchar.rs", REPO + "/nom/src/helper.rs"]
INFO_FILE = REPO + "/info/src/lib.rs"
PREDEFINED = ["lt", "gt", "amp", "apos", "quot"]

_dump = None


def grammar():
    global _dump
    if _dump is None:
        _dump = nomsem.Dump(GRAMMAR_FILES + [INFO_FILE])
    return nomsem.Grammar(_dump)


def norm_ty(t):
    import re
    t = re.sub(r"<\s*'[a-z_]+\s*>", "", t or "")
    t = re.sub(r"&\s*'[a-z_]+\s*", "&", t)
    t = t.replace(" ", "").replace("model::", "").replace("xml_nom::", "")
    return t


def variant_arms(g, file, prefix="parser"):
    """match arms in `file` whose pattern is a parser-model variant and whose body refuses or panics:
    -> list of (enum, variant, action, fn name, line) with action in {'panic', 'reject'}"""
    out = []

    def classify(body):
        b = body
        while b["k"] == "block" and len(b["stmts"]) == 1 and b["stmts"][0]["k"] == "expr":
            b = b["stmts"][0]["e"]
        if b["k"] == "macro" and b["name"] in ("unimplemented", "todo", "panic", "unreachable"):
            return "panic" if b["name"] != "unreachable" else None
        if b["k"] == "return" and b["e"] and b["e"]["k"] == "call" and b["e"]["func"].get("segs", [""])[-1] == "Err":
            return "reject"
        if b["k"] == "try" and b["e"]["k"] == "call" and b["e"]["func"].get("segs", [""])[-1] == "Err":
            return "reject"
        if b["k"] == "call" and b["func"].get("segs", [""])[-1] == "Err":
            return "reject"
        return None

    def walk(v, fname):
        if isinstance(v, dict):
            if v.get("k") == "match":
                for arm in v["arms"]:
                    pats = arm["pat"]["cases"] if arm["pat"]["k"] == "or" else [arm["pat"]]
                    for p in pats:
                        segs = None
                        if p["k"] in ("tuplestruct", "path", "struct"):
                            segs = p["path"]["segs"]
                        if segs and len(segs) >= 3 and segs[0] == prefix:
                            act = classify(arm["body"])
                            if act:
                                out.append((segs[-2], segs[-1], act, fname, arm.get("line")))
            for x in v.values():
                walk(x, fname)
        elif isinstance(v, list):
            for x in v:
                walk(x, fname)
    for it in g.dump.items[file]:
        if "body" in it:
            walk(it["body"], ((it.get("self_ty") or "") + "::" + it["name"]).strip(":"))
    return out


def variant_sites(g, enum, variant, f=None, model_f=None):
    """grammar sites map(P, F) of the grammar file whose F builds model::<enum>::<variant>"""
    f = f or GRAMMAR_FILES[0]
    model_f = model_f or GRAMMAR_FILES[1]
    sites = []

    def ctor_variant(fnname, arg_ty):
        # assoc fn or From impl of the enum in model.rs: which variant does it build?
        hits = []
        for (ff, self_ty, name), fns in g.dump.methods.items():
            if ff != model_f or not self_ty.startswith(enum) or name != fnname:
                continue
            for fn in fns:
                if fnname == "from" and arg_ty is not None:
                    pty = norm_ty(fn["params"][0]["ty"])
                    if pty != arg_ty:
                        continue
                txt = json.dumps(fn["body"])
                vs = set()

                def walk(v):
                    if isinstance(v, dict):
                        if v.get("k") in ("call", "path", "struct"):
                            segs = v.get("func", {}).get("segs") if v.get("k") == "call" else (v.get("segs") or v.get("path", {}).get("segs"))
                            if segs and len(segs) >= 2 and segs[-2] in (enum, "Self"):
                                vs.add(segs[-1])
                        for x in v.values():
                            walk(x)
                    elif isinstance(v, list):
                        for x in v:
                            walk(x)
                walk(fn["body"])
                hits.append(vs)
        return hits

    for key in list(g.dump.fns):
        if key[0] != f:
            continue
        ref = g.production(key[1], f)
        try:
            body = g.body_of(ref)
        except nomsem.Unsupported:
            continue
        for n in active.find_nodes(g, ref, lambda n: n.kind == "map" and isinstance(n.arg, dict) and n.arg.get("k") == "path"):
            segs = n.arg["segs"]
            if len(segs) < 2 or segs[-2] != enum:
                continue
            if segs[-1] == variant:
                sites.append(n)
                continue
            # output type of the mapped parser, when it is a production
            kid = n.kids[0]
            arg_ty = None
            try:
                kid = g.locate(kid, [])
            except nomsem.Unsupported:
                pass
            if kid.kind == "ref":
                fn = g.dump.fns.get((kid.arg[0], kid.arg[1]))
                ret = norm_ty(fn["ret"]) if fn else ""
                if ret.startswith("IResult<&str,") and ret.endswith(">"):
                    arg_ty = ret[len("IResult<&str,"):-1]
            elif kid.kind in ("class0", "class1", "tag", "recognize", "take_until", "take_except"):
                arg_ty = "&str"
            if arg_ty is None and segs[-1] == "from":
                raise nomsem.Unsupported("cannot type the argument of %s at %s" % ("::".join(segs), n.src))
            for vs in ctor_variant(segs[-1], arg_ty):
                if vs == {variant}:
                    sites.append(n)
                elif variant in vs:
                    raise nomsem.Unsupported("constructor %s builds several variants" % "::".join(segs))
    return sites


def charref_fn_model(g, name):
    """Read info::char_from_char10/16 from the dump:
         let num = <value.parse::<u32>() | u32::from_str_radix(value, R)>.map_err(..)?;
         char::from_u32(num) [.filter(|c| PRED(*c))]* .ok_or(..)
       -> (radix, [Pred...]).  Any other shape is Unsupported (inconclusive), never a verdict."""
    fn = g.dump.fns.get((INFO_FILE, name))
    if fn is None:
        raise nomsem.Unsupported("no fn %s" % name)
    g.used_fns[(INFO_FILE, name)] = g.dump.fn_hash(fn)
    st = fn["body"]["stmts"]
    if len(st) != 2 or st[0]["k"] != "let" or st[1]["k"] != "expr":
        raise nomsem.Unsupported("%s: body shape" % name)
    var = st[0]["pat"].get("name")
    e = st[0]["init"]
    if e["k"] != "try":
        raise nomsem.Unsupported("%s: no ? on the numeric parse" % name)
    e = e["e"]
    if not (e["k"] == "mcall" and e["method"] == "map_err"):
        raise nomsem.Unsupported("%s: map_err" % name)
    e = e["recv"]
    param = nomsem.pname(fn["params"][0])
    if e["k"] == "mcall" and e["method"] == "parse" and (e.get("turbofish") or "").replace(" ", "") == "::<u32>" and e["recv"].get("segs") == [param]:
        radix = 10
    elif (e["k"] == "call" and e["func"].get("segs") == ["u32", "from_str_radix"] and e["args"][0].get("segs") == [param]
          and e["args"][1]["k"] == "lit" and e["args"][1]["t"] == "int"):
        radix = int(e["args"][1]["v"])
    else:
        raise nomsem.Unsupported("%s: numeric parse shape" % name)
    if radix not in (10, 16):
        raise nomsem.Unsupported("%s: radix %d" % (name, radix))
    e = st[1]["e"]
    if not (e["k"] == "mcall" and e["method"] == "ok_or"):
        raise nomsem.Unsupported("%s: ok_or" % name)
    e = e["recv"]
    preds = []
    while e["k"] == "mcall" and e["method"] == "filter":
        preds.append(nomsem.Pred(g, e["args"][0], {}, INFO_FILE))
        e = e["recv"]
    if not (e["k"] == "call" and e["func"].get("segs") == ["char", "from_u32"] and e["args"][0].get("segs") == [var]):
        raise nomsem.Unsupported("%s: char::from_u32 shape" % name)
    return radix, preds


def digits_value(inp, i, m, radix, W=40):
    """value of digit string c[i..i+m) saturated at 2^33 (enough to tell > u32::MAX), as int or BitVec(W)"""
    val = 0
    for k in range(m):
        c = inp[i + k]
        if isinstance(c, int):
            try:
                d = int(chr(c), radix)
            except ValueError:
                d = 0
        else:
            z = z3.ZeroExt(W - sym.CW, c)
            if radix == 10:
                d = z - 0x30
            else:
                d = z3.If(z3.ULE(z, 0x39), z - 0x30, z3.If(z3.ULE(z, 0x46), z - 0x41 + 10, z - 0x61 + 10))
        if isinstance(val, int) and isinstance(d, int):
            val = min(val * radix + d, 1 << 33)
            continue
        if isinstance(val, int):
            val = z3.BitVecVal(val, W)
        if isinstance(d, int):
            d = z3.BitVecVal(d, W)
        nv = val * radix + d
        val = z3.If(z3.UGT(nv, 1 << 33), z3.BitVecVal(1 << 33, W), nv)
    return val


def vin(val, lo, hi):
    if isinstance(val, int):
        return lo <= val <= hi
    return And(z3.UGE(val, lo), z3.ULE(val, hi))


def attdefault_scope(g):
    """read from info::XmlDocumentTypeDeclaration::node: is the new DOCTYPE item pushed into the document BEFORE the
    loop over the internal subset ("declared-before": a default value may refer to entities declared earlier in the
    subset) or only by the caller afterwards ("predefined": Context::entity finds no DOCTYPE yet)?"""
    import json as _json
    fns = g.dump.methods.get((INFO_FILE, "XmlDocumentTypeDeclaration", "node"), [])
    if len(fns) != 1:
        raise nomsem.Unsupported("XmlDocumentTypeDeclaration::node not found")
    g.used_fns[(INFO_FILE, "XmlDocumentTypeDeclaration::node")] = g.dump.fn_hash(fns[0])
    seen_loop = False
    for st in fns[0]["body"]["stmts"]:
        e = st.get("e") or st.get("init") or {}
        if st["k"] == "expr" and e.get("k") == "for":
            seen_loop = True
            break
        t = _json.dumps(e)
        if '"push_child"' in t and '"document"' in t:
            return "declared-before"
    if not seen_loop:
        raise nomsem.Unsupported("XmlDocumentTypeDeclaration::node: no loop over the internal subset")
    return "predefined"


class Impl:
    """xml_parser::document + the info-level reject rules, over one Input"""

    def __init__(self, inp, g=None, declared=None, declared_before_attlist=None):
        self.g = g or grammar()
        self.inp = inp
        self.run = nomsem.Run(self.g, inp)
        self.doc = self.g.production("document", GRAMMAR_FILES[0])
        self.declared = declared
        # entities whose declaration precedes the ATTLIST declarations of the document (templates put them first)
        self.declared_before_attlist = declared if declared_before_attlist is None else declared_before_attlist
        self._locate()

    def _locate(self):
        g = self.g
        f = GRAMMAR_FILES[0]
        self.p_reference = g.production("reference", f)
        self.p_entity_ref = g.production("entity_ref", f)
        self.p_char_ref = g.production("char_ref", f)
        self.p_name = g.production("name", f)

        def is_ref_to(n, prod):
            return n.kind == "ref" and n.arg[1] == prod

        # sites whose references info::XmlDocument::new resolves while building the items:
        # element content and attribute values (of elements and of ATTLIST defaults)
        self.sites = []
        for prod in ("content", "att_value"):
            pr = g.production(prod, f)
            ns = active.find_nodes(g, pr, lambda n: n.kind == "map" and n.kids and is_ref_to(n.kids[0], "reference"))
            if not ns:
                raise nomsem.Unsupported("no reference site found in %s" % prod)
            self.sites += ns
        # entity values: XmlEntityValue::new checks character references only (entity references are bypassed)
        self.charref_only_sites = []
        evn = g.dump.methods.get((INFO_FILE, "XmlEntityValue", "new"), [])
        if len(evn) != 1:
            raise nomsem.Unsupported("XmlEntityValue::new not found")
        g.used_fns[(INFO_FILE, "XmlEntityValue::new")] = g.dump.fn_hash(evn[0])
        import json as _json
        evtxt = _json.dumps(evn[0]["body"])
        has10, has16 = "char_from_char10" in evtxt, "char_from_char16" in evtxt
        if has10 != has16:
            raise nomsem.Unsupported("XmlEntityValue::new validates only one radix")
        if has10:
            pr = g.production("entity_value", f)
            ns = active.find_nodes(g, pr, lambda n: n.kind == "map" and n.kids and is_ref_to(n.kids[0], "reference"))
            if not ns:
                raise nomsem.Unsupported("no reference site found in entity_value")
            self.charref_only_sites = ns
        # parse-model variants that info refuses (return Err) or panics on (unimplemented!/todo!/panic!)
        self.reject_sites, self.panic_sites = [], []
        self.arms = variant_arms(g, INFO_FILE)
        for enum, variant, action, fname, line in self.arms:
            vs = variant_sites(g, enum, variant)
            if not vs:
                raise nomsem.Unsupported("no grammar site builds parser::%s::%s (arm in %s)" % (enum, variant, fname))
            for n in vs:
                (self.reject_sites if action == "reject" else self.panic_sites).append((n, "%s::%s in %s:%s" % (enum, variant, fname, line)))
        # default values of ATTLIST declarations are resolved while the DOCTYPE item is being built
        self.n_default_decl = active.find_nodes(g, g.production("att_def", f), lambda n: is_ref_to(n, "default_decl"))
        if not self.n_default_decl:
            raise nomsem.Unsupported("att_def does not use default_decl")
        self.attdefault_scope = attdefault_scope(g)
        nm = active.find_nodes(g, self.p_entity_ref, lambda n: is_ref_to(n, "name"))
        if len(nm) != 1:
            raise nomsem.Unsupported("entity_ref shape")
        self.n_entname = nm[0]
        cls = active.find_nodes(g, self.p_char_ref, lambda n: n.kind == "class1" and isinstance(n.arg, nomsem.RangesPred))
        self.n_digits = {}
        for n in cls:
            rg = sorted(n.arg.ranges)
            if rg == [(0x30, 0x39)]:
                self.n_digits[10] = n
            elif rg == [(0x30, 0x39), (0x41, 0x46), (0x61, 0x66)]:
                self.n_digits[16] = n
        if set(self.n_digits) != {10, 16}:
            raise nomsem.Unsupported("char_ref shape")
        # XmlCharReference::node: radix 10 -> char_from_char10, 16 -> char_from_char16 (read from the dump)
        self.charref_models = {}
        node_fns = [fn for fn in g.dump.methods.get((INFO_FILE, "XmlCharReference", "node"), [])]
        if len(node_fns) != 1:
            raise nomsem.Unsupported("XmlCharReference::node not found")
        g.used_fns[(INFO_FILE, "XmlCharReference::node")] = g.dump.fn_hash(node_fns[0])
        import json as _json
        txt = _json.dumps(node_fns[0]["body"])
        for radix, fname in ((10, "char_from_char10"), (16, "char_from_char16")):
            if fname not in txt:
                raise nomsem.Unsupported("XmlCharReference::node does not call %s" % fname)
            r, preds = charref_fn_model(g, fname)
            self.charref_models[radix] = (r, preds)
        self._check_charref_dispatch(node_fns[0])

    def _check_charref_dispatch(self, fn):
        """match radix { 10 => char_from_char10(..), 16 => char_from_char16(..), .. }"""
        found = {}

        def walk(v):
            if isinstance(v, dict):
                if v.get("k") == "match":
                    for arm in v["arms"]:
                        p = arm["pat"]
                        b = arm["body"]
                        if p["k"] == "lit" and b.get("k") == "call" and b["func"].get("segs"):
                            found[int(p["lit"]["v"])] = b["func"]["segs"][-1]
                for x in v.values():
                    walk(x)
            elif isinstance(v, list):
                for x in v:
                    walk(x)
        walk(fn["body"])
        if found.get(10) != "char_from_char10" or found.get(16) != "char_from_char16":
            raise nomsem.Unsupported("XmlCharReference::node radix dispatch %r" % found)

    def grammar_accepts(self):
        return self.run.accepts_all(self.doc)

    def info_ok(self, acc):
        """conjunction of the info-level reject rules over every reference the items are built from"""
        act = active.activation(self.run, self.doc, acc)
        self.act = act
        self.instances = len(act)
        conds = []
        for n, why in self.reject_sites:
            for (nid, p), (node, a) in act.items():
                if nid == n.id:
                    conds.append(Not(a))
        pan = []
        for n, why in self.panic_sites:
            for (nid, p), (node, a) in act.items():
                if nid == n.id:
                    pan.append(a)
        self.panic_cond = Or(*pan)
        for site in self.sites + self.charref_only_sites:
            for (nid, p), (node, a) in list(act.items()):
                if nid != site.id:
                    continue
                sub = active.activation_from(self.run, site, p, a)
                for (nid2, q), (n2, a2) in sub.items():
                    if nid2 == self.n_entname.id and site not in self.charref_only_sites:
                        for e, ce in self.run.ends(n2, q).items():
                            names = PREDEFINED + list(self.declared or [])
                            okn = Or(*[self._is_word(q, e - q, w) for w in names])
                            conds.append(sym.Implies(And(a2, ce), okn))
                    for radix, dn in self.n_digits.items():
                        if nid2 == dn.id:
                            for e, ce in self.run.ends(n2, q).items():
                                conds.append(sym.Implies(And(a2, ce), self.charref_ok(q, e - q, radix)))
        # ATTLIST defaults: Context::entity sees the DOCTYPE's own declarations only if the DOCTYPE item is attached to
        # the document before its internal subset is walked (then: the declarations that precede the ATTLIST)
        for dn in self.n_default_decl:
            for (nid, p), (node, a) in list(act.items()):
                if nid != dn.id:
                    continue
                sub = active.activation_from(self.run, dn, p, a)
                for (nid2, q), (n2, a2) in sub.items():
                    if nid2 == self.n_entname.id:
                        names = list(PREDEFINED)
                        if self.attdefault_scope == "declared-before":
                            names += list(self.declared_before_attlist or [])
                        for e, ce in self.run.ends(n2, q).items():
                            okn = Or(*[self._is_word(q, e - q, w) for w in names])
                            conds.append(sym.Implies(And(a2, ce), okn))
        return And(*conds)

    def _is_word(self, i, m, w):
        if m != len(w) or i + m > self.inp.L:
            return False
        return And(*[sym.ceq(self.inp[i + k], ord(ch)) for k, ch in enumerate(w)])

    def charref_ok(self, i, m, radix):
        """info::char_from_char10/16: str::parse::<u32> / u32::from_str_radix succeeds and char::from_u32 is Some"""
        fn_radix, preds = self.charref_models[radix]
        v = digits_value(self.inp, i, m, fn_radix)
        if fn_radix == 10 and radix == 16:
            # decimal parse of a hex-digit string fails on letters
            raise nomsem.Unsupported("radix mismatch between grammar and info")
        ok = Or(vin(v, 0, 0xD7FF), vin(v, 0xE000, 0x10FFFF))   # char::from_u32 is Some (and parse fits u32)
        if preds:
            c = v if isinstance(v, int) else z3.Extract(sym.CW - 1, 0, v)
            for p in preds:
                ok = And(ok, p(c))
        return ok

    def accepts(self):
        acc = self.grammar_accepts()
        if acc is False:
            return False
        return And(acc, self.info_ok(acc))


def reference(inp, mode, declared=None, relax=()):
    r = xmlref.XmlRef(inp, mode, declared)
    r.relax = set(relax)
    if relax and mode != "lenient":
        raise ValueError("relaxations only apply to the lenient language")
    return r.document()
