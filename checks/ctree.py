"""Tree-mutator step (shared by C12, C13 and C14): one DOM Level 1 child mutator on an element, from an arbitrary valid state
of a bounded piece of the item graph.

dom XmlElement::{insert_before, remove_child} and the NodeMut defaults append_child / replace_child are executed by the
S-kernel from source, together with everything below them: TryFrom<XmlNode> for Rc<XmlItem>, info
HasChildren::{insert_before, append, delete} and XmlElement's child_index / insert_by_id / delete_by_id /
last_child_or_self_id, HasParent::ancestor, XmlItem::{id, parent_id, set_parent_id, remove_from_parent, set_order_before,
set_order_after, clear_order, order} and the DocumentOrder vector.  RefCell borrow state is tracked (a guard lives to the
end of its statement, or of the block when bound by `let`), so a double borrow is a panic path.

State: D (document) -> G -> P -> k children (k <= 2 quick / 3 thorough; Element / Text / Comment, no two adjacent texts), optionally one
element child with a grandchild; every attached node registered in the order vector in pre-order; ids SYMBOLIC, pairwise
distinct, non-zero.  Receiver P.  Argument: a new detached node (element, element with a child, text, comment, attribute),
a child of P, the grandchild, P itself, the ancestor G, a node of another document.  Reference: none, a child, a
stranger.  Stubs: owner_document (document identity); Context::node / add_item over a model of the id table in which the
registered item of an id resolves only while some child vector (or the context) owns it - what Weak::upgrade does.

Obligations (decided by z3 on every path):
  C13  outcome = the DOM Level 1 class (WrongDocument, HierarchyRequest, NotFound or success), the child lists after a
       success are exactly the specified ones and the argument is returned, no path panics, a failing call changes no child
       list and no parent link and leaves the attached nodes in the same key order.
  C12  after the call - success or failure - every listed child reports its parent, no node is listed twice, a removed
       node has no parent.
  C14  after the call the order keys of the attached nodes are non-zero and strictly increasing along the pre-order walk.
"""
import sys
import time
import json
import itertools
import multiprocessing as mp
import z3

import common
from common import show
import kharness as K
from sx import kernel, kstd, sym, replay, nomsem
from sx.kernel import Enum, Obj, Ok, Err, Some, NONE, SStr, SVec
from sx.sym import And, Or, Not

INFO_T = {"Element": "XmlElement", "Text": "XmlText", "Comment": "XmlComment", "Attribute": "XmlAttribute", "Document": "XmlDocument"}
DOM_T = {"Element": ("XmlElement", "element"), "Text": ("XmlText", "data"), "Comment": ("XmlComment", "data"), "Attribute": ("XmlAttr", "attribute")}
NEWS = [("new", "Element"), ("new", "ElementWithChild"), ("new", "Text"), ("new", "Comment"), ("new", "Attribute"),
        ("child",), ("grandchild",), ("self",), ("ancestor",), ("foreign",)]


class State:
    pass


def build(kinds, gc):
    """-> State with .nodes name -> (XmlItem enum, info obj, kind), .tree name -> [child names], .parent name -> name|None"""
    st = State()
    names = ["D", "G", "P"] + ["c%d" % i for i in range(len(kinds))] + (["g"] if gc is not None else []) + ["new", "newchild", "foreign", "stranger"]
    st.ids = {n: z3.BitVec("id_%s" % n, 64) for n in names}
    version = z3.BitVec("version", 64)
    idl = list(st.ids.values())
    st.cons = [z3.Distinct(*idl)] + [x != 0 for x in idl] + [z3.ULT(x, 1 << 62) for x in idl] + [z3.ULT(version, 1 << 62), version != 0]
    ordering = K.mk_obj("DocumentOrder", K.INFO, order=SVec(), version=version)
    st.ordering = ordering
    registry = []
    st.nodes, st.tree, st.parent, st.kind = {}, {}, {}, {}

    def mk(name, kind, parent, doc=1, attached=True):
        info = K.mk_obj("ContextInfo", K.INFO, id=st.ids[name], order_cache=0, order_version=0)
        ctx = K.mk_obj("Context", K.INFO, info=info, ordering=ordering, registry=registry)
        fields = {"context": ctx, "parent_id": Some(st.ids[parent]) if parent else NONE, "_doc": doc, "_name": name}
        if kind == "Element":
            fields["children"] = SVec()
            fields["attributes"] = SVec()
        if kind == "Document":
            fields["children"] = SVec()
            fields["context"] = Some(ctx)
            st.document = None
        o = K.mk_obj(INFO_T[kind], K.INFO, **fields)
        it = K.mk_enum("XmlItem", K.INFO, kind, o)
        # the id table (Context.id_map) holds a WEAK reference to the item registered for this id.  For a parsed node that is
        # the very item its parent's child vector owns; for a node made by a DOM factory it is an item that nobody owns any
        # more once the factory has returned (the dom handle keeps only the inner node).
        registered = it if attached or kind == "Document" else K.mk_enum("XmlItem", K.INFO, kind, o)
        registry.append([st.ids[name], registered])
        st.nodes[name] = (it, o, info)
        st.kind[name] = kind
        st.tree[name] = []
        st.parent[name] = parent
        if parent:
            st.nodes[parent][1].fields["children"].append(it)
            st.tree[parent].append(name)
        if attached:
            ordering.fields["order"].append(info)
        return it
    mk("D", "Document", None)
    st.document = st.nodes["D"][1]
    mk("G", "Element", "D")
    mk("P", "Element", "G")
    for i, kd in enumerate(kinds):
        mk("c%d" % i, kd, "P")
        if gc == i:
            mk("g", "Element", "c%d" % i)
    st.registry = registry
    st.mk = mk
    return st


def dom_node(st, name):
    it, o, _ = st.nodes[name]
    domt, field = DOM_T[st.kind[name]]
    return K.mk_enum("XmlNode", K.DOM, st.kind[name], K.mk_obj(domt, K.DOM, **{field: o}))


def choose(st, who, idx, gc, I=None):
    """materialise the argument node; -> name or None when the choice does not exist in this shape.
    With an interpreter the detached subtree is built by the real append_child, as a caller would."""
    if who[0] == "new":
        kd = who[1]
        if kd == "ElementWithChild":
            st.mk("new", "Element", None, attached=False)
            if I is None:
                st.mk("newchild", "Element", "new", attached=False)
            else:
                st.mk("newchild", "Element", None, attached=False)
                r = I.try_repo_method(K.mk_obj("XmlElement", K.DOM, element=st.nodes["new"][1]), "append_child", [dom_node(st, "newchild")])
                if not (isinstance(r, Enum) and r.variant == "Ok"):
                    raise kernel.Unsupported("building the detached subtree failed: %s" % r)
                st.tree["new"] = ["newchild"]
                st.parent["newchild"] = "new"
        else:
            st.mk("new", kd, None, attached=False)
        return "new"
    if who[0] == "child":
        return "c%d" % idx if idx is not None and ("c%d" % idx) in st.nodes else None
    if who[0] == "grandchild":
        return "g" if "g" in st.nodes else None
    if who[0] == "self":
        return "P"
    if who[0] == "ancestor":
        return "G"
    if who[0] == "foreign":
        st.mk("foreign", "Element", None, doc=2, attached=False)
        return "foreign"
    return None


def preorder(tree, root="D"):
    out = [root]
    for c in tree[root]:
        out += preorder(tree, c)
    return out


def spec(st, action, new, ref):
    """DOM Level 1 on the abstract tree: -> (outcome, tree', parent', returned)"""
    tree = {k: list(v) for k, v in st.tree.items()}
    parent = dict(st.parent)
    if action == "remove_child":
        if ref not in tree["P"]:
            return "NotFoundErr", tree, parent, None
        tree["P"].remove(ref)
        parent[ref] = None
        return "ok", tree, parent, ref
    # DOM Level 1 does not rank the exceptions: when several apply, any of them is the specified outcome
    errs = []
    if st.nodes[new][1].fields["_doc"] != 1:
        errs.append("WrongDocumentErr")
    if new in ("P", "G") or st.kind[new] == "Attribute":
        errs.append("HierarchyRequestErr")
    if action in ("insert_before", "replace_child") and ref is not None and ref not in tree["P"]:
        errs.append("NotFoundErr")
    if errs:
        return "|".join(errs), tree, parent, None
    # success: the node is first removed from where it is
    if parent.get(new):
        tree[parent[new]].remove(new)
    parent[new] = "P"
    if ref is None:
        tree["P"].append(new)
    else:
        tree["P"].insert(tree["P"].index(ref), new)
    if action == "replace_child":
        tree["P"].remove(ref)
        parent[ref] = None
        return "ok", tree, parent, ref
    return "ok", tree, parent, new


def err_class(r):
    """Err(Error::Dom(DomException::X)) -> 'X'"""
    v = r.fields[0]
    while isinstance(v, Enum) and v.fields and isinstance(v.fields[0], Enum):
        v = v.fields[0]
    return v.variant if isinstance(v, Enum) else str(v)


def work(job):
    if job[1] == "created_parent":
        return work_created((job[0], job[2], job[3]))
    if job[1] == "set_attribute_node":
        return work_attr((job[0],) + tuple(job[2:]))
    prop, kinds, gc, action, who, new_idx, ref_sel, timeout_s = job
    out = {"job": job[1:7], "status": "holds", "paths": 0, "queries": 0, "error": None, "fns": {}, "skipped": False}
    t0 = time.time()
    try:
        I = K.new_interp("debug", max_paths=4000)
        I.track_borrows = True
        I.files_in_scope = ()
        st0 = build(kinds, gc)
        I.assume(z3.And(*st0.cons))
        holder = {}

        def alive(st, item):
            """Weak::upgrade: somebody still owns the registered item - a child vector, or the context (the document)"""
            if item.variant == "Document":
                return True
            for _, o, _ in st.nodes.values():
                if any(x is item for x in o.fields.get("children", ())):
                    return True
            return False

        def ctx_node(I, ctx, id_):
            for key, it in ctx.fields["registry"]:
                if I.truth(kstd.v_eq(I, key, id_)):
                    return Some(it) if alive(holder["st"], it) else NONE
            return NONE

        def add_item(I, ctx, item):
            me = ctx.fields["info"].fields["id"]
            for ent in ctx.fields["registry"]:
                if ent[0] is me or (hasattr(ent[0], "eq") and hasattr(me, "eq") and ent[0].eq(me)):
                    ent[1] = item
                    return kernel.UNIT
            ctx.fields["registry"].append([me, item])
            return kernel.UNIT

        def owner_doc(I, recv):
            for v in recv.fields.values():
                if isinstance(v, Obj) and "_doc" in v.fields:
                    return Some(v.fields["_doc"])
            return NONE
        I.mstubs = {("Context", "node"): ctx_node, ("Context", "document"): lambda I, c: holder["st"].document, ("Context", "add_item"): add_item}
        for domt, _ in DOM_T.values():
            I.mstubs[(domt, "owner_document")] = owner_doc

        def thunk(I):
            st = build(kinds, gc)
            holder["st"] = st
            new = choose(st, who, new_idx, gc, I) if action != "remove_child" else None
            if ref_sel is None:
                ref = None
            elif ref_sel == "stranger":
                st.mk("stranger", "Element", None, attached=False)
                ref = "stranger"
            else:
                ref = "c%d" % ref_sel
            holder["new"], holder["ref"] = new, ref
            recv = K.mk_obj("XmlElement", K.DOM, element=st.nodes["P"][1])
            args = []
            if action in ("insert_before",):
                args = [dom_node(st, new), Some(dom_node(st, ref)) if ref else NONE]
            elif action == "append_child":
                args = [dom_node(st, new)]
            elif action == "replace_child":
                args = [dom_node(st, new), dom_node(st, ref)]
            else:
                args = [dom_node(st, ref)]
            r = I.try_repo_method(recv, action, args)
            # observe: child lists, parent ids, order keys
            obs = {"children": {}, "parent_id": {}, "key": {}}
            for name, (it, o, info) in st.nodes.items():
                if "children" in o.fields:
                    obs["children"][name] = [x.fields[0].fields["_name"] for x in o.fields["children"]]
                obs["parent_id"][name] = o.fields["parent_id"]
            for name, (it, o, info) in st.nodes.items():
                obs["key"][name] = I.try_repo_method(it, "order", [])
            return (r, obs)
        # does this combination exist in the shape?
        probe = build(kinds, gc)
        if action != "remove_child" and choose(probe, who, new_idx, gc) is None:
            out["skipped"] = True
            return out
        paths = I.explore(thunk)
        out["paths"] = len(paths)
        st_s = build(kinds, gc)
        new_s = choose(st_s, who, new_idx, gc) if action != "remove_child" else None
        ref_s = None if ref_sel is None else ("stranger" if ref_sel == "stranger" else "c%d" % ref_sel)
        if ref_s == "stranger":
            st_s.mk("stranger", "Element", None, attached=False)
        if new_s is not None and new_s == ref_s:
            out["skipped"] = True       # insert_before(x, x) / replace_child(x, x): DOM Level 1 leaves it to the implementation
            return out
        want, tree2, parent2, returned = spec(st_s, action, new_s, ref_s)
        init_key = {n: 0 for n in st_s.nodes}
        for k, n in enumerate(preorder(st_s.tree)):
            init_key[n] = k + 1
        ids = st0.ids

        def pid_is(obs, name, pname):
            v = obs["parent_id"][name]
            if pname is None:
                return isinstance(v, Enum) and v.variant == "None"
            return And(isinstance(v, Enum) and v.variant == "Some", kstd.v_eq(I, v.fields[0], ids[pname])) if isinstance(v, Enum) and v.variant == "Some" else False

        def unchanged(obs):
            conds = [obs["children"][n] == st_s.tree[n] for n in obs["children"]]
            conds += [pid_is(obs, n, st_s.parent[n]) for n in obs["parent_id"]]
            # order keys are observable through the order they induce on the attached nodes (XPath results), not as numbers
            ks = [kernel.to_bv(obs["key"][n]) for n in preorder(st_s.tree)]
            conds += [k_ != 0 for k_ in ks] + [z3.ULT(a_, b_) for a_, b_ in zip(ks, ks[1:])]
            return And(*conds)

        def returned_name(r):
            ret = r.fields[0]
            if isinstance(ret, Enum) and ret.fields and isinstance(ret.fields[0], Obj):
                for v in ret.fields[0].fields.values():
                    if isinstance(v, Obj) and "_name" in v.fields:
                        return v.fields["_name"]
            return None

        def post(p):
            if p["kind"] == "panic":
                return prop != "C13"       # C12 / C14 speak about the state after a call that returned; panics are C13's
            r, obs = p["value"]
            ok = isinstance(r, Enum) and r.variant == "Ok"
            if prop == "C13":
                if want == "ok":
                    if not ok:
                        return False
                    return And(*[obs["children"][n] == tree2[n] for n in obs["children"]], returned_name(r) == returned,
                               *[pid_is(obs, n, parent2[n]) for n in obs["parent_id"]])
                if ok or err_class(r) not in want.split("|"):
                    return False
                return unchanged(obs)
            if prop == "C12":
                conds = []
                listed = []
                for par, kids in obs["children"].items():
                    for kname in kids:
                        conds.append(pid_is(obs, kname, par))
                        listed.append(kname)
                conds.append(len(listed) == len(set(listed)))
                if ok and want == "ok" and action in ("remove_child", "replace_child"):
                    conds.append(pid_is(obs, ref_s, None))
                    conds.append(all(ref_s not in kids for kids in obs["children"].values()))
                return And(*conds)
            # C14: keys of the attached nodes along the pre-order walk of the tree as it is now
            now = {n: list(v) for n, v in obs["children"].items()}
            for n in obs["parent_id"]:
                now.setdefault(n, [])
            try:
                walk = preorder(now)
            except RecursionError:
                return False
            ks = [kernel.to_bv(obs["key"][n]) for n in walk]
            return And(*[k != 0 for k in ks], *[z3.ULT(a_, b_) for a_, b_ in zip(ks, ks[1:])])
        verdict, info, nq = K.decide(I, paths, post, timeout_s)
        out["queries"] = nq + I.feas_queries
        out["fns"] = K.fn_table(I)
        out["want"] = want
        # translator validation: the shape is a concrete DOM call (only ids / keys are symbolic), so the compiled code must end on one of
        # the feasible paths - outcome class and child list of the receiver - whatever the verdict on the property is
        preds = []
        for p_ in paths:
            if len(preds) >= 4:
                break
            s_ = z3.Solver()
            s_.set("timeout", 20000)
            for c_ in I.base:
                s_.add(c_)
            for c_ in p_["pc"]:
                s_.add(c_)
            out["queries"] += 1
            if s_.check() != z3.sat:
                continue
            if p_["kind"] == "panic":
                preds.append({"result": "panic", "msg": str(p_.get("msg"))[:80]})
            else:
                r_, obs_ = p_["value"]
                preds.append({"result": "Ok" if (isinstance(r_, Enum) and r_.variant == "Ok") else err_class(r_), "children": obs_["children"].get("P")})
        out["tv"] = {"w": {"kinds": kinds, "gc": gc, "action": action, "new": who + ((new_idx,) if who[0] == "child" else ()), "ref": ref_sel, "specified": want,
                           "specified_children": tree2 if want == "ok" else st_s.tree}, "preds": preds}
        if verdict == "sat":
            mdl, p = info
            out["status"] = "sat"
            w = {"kinds": kinds, "gc": gc, "action": action, "new": who + ((new_idx,) if who[0] == "child" else ()), "ref": ref_sel, "specified": want}
            if p["kind"] == "panic":
                w["panic"] = p["msg"]
            else:
                r, obs = p["value"]
                w["result"] = "Ok" if (isinstance(r, Enum) and r.variant == "Ok") else err_class(r)
                w["children_after"] = obs["children"]
                w["keys_after"] = {n: (K.model_int(mdl, v) if not isinstance(v, int) else v) for n, v in obs["key"].items()}
                w["specified_children"] = tree2 if want == "ok" else st_s.tree
            out["witness"] = w
        elif verdict == "unknown":
            out["status"] = "unknown"
            out["error"] = str(info)
    except (kernel.Unsupported, nomsem.Unsupported) as e:
        out["status"] = "unsupported"
        out["error"] = str(e)
    except Exception:
        import traceback
        out["status"] = "unsupported"
        out["error"] = "exception: " + traceback.format_exc()[-900:]
    out["wall"] = time.time() - t0
    return out


def work_created(job):
    """a parent made by a DOM factory: c is appended to it, asked for its parent, then moved to P (three real calls)"""
    prop, attach_first, timeout_s = job
    out = {"job": ((), None, "created_parent", ("attached" if attach_first else "detached",), None, None), "status": "holds", "paths": 0, "queries": 0,
           "error": None, "fns": {}, "skipped": False}
    t0 = time.time()
    try:
        I = K.new_interp("debug", max_paths=4000)
        I.track_borrows = True
        st0 = build((), None)
        I.assume(z3.And(*st0.cons))
        holder = {}

        def alive(st, item):
            if item.variant == "Document":
                return True
            return any(any(x is item for x in o.fields.get("children", ())) for _, o, _ in st.nodes.values())

        def ctx_node(I, ctx, id_):
            for key, it in ctx.fields["registry"]:
                if I.truth(kstd.v_eq(I, key, id_)):
                    return Some(it) if alive(holder["st"], it) else NONE
            return NONE

        def add_item(I, ctx, item):
            me = ctx.fields["info"].fields["id"]
            for ent in ctx.fields["registry"]:
                if ent[0] is me or ent[0].eq(me):
                    ent[1] = item
                    return kernel.UNIT
            return kernel.UNIT

        def owner_doc(I, recv):
            for v in recv.fields.values():
                if isinstance(v, Obj) and "_doc" in v.fields:
                    return Some(v.fields["_doc"])
            return NONE
        I.mstubs = {("Context", "node"): ctx_node, ("Context", "document"): lambda I, c: holder["st"].document, ("Context", "add_item"): add_item}
        for domt, _ in DOM_T.values():
            I.mstubs[(domt, "owner_document")] = owner_doc

        def thunk(I):
            st = build((), None)
            holder["st"] = st
            st.mk("new", "Element", None, attached=False)
            st.mk("newchild", "Element", None, attached=False)
            dom = lambda n: K.mk_obj("XmlElement", K.DOM, element=st.nodes[n][1])
            steps = []
            if attach_first:
                steps.append(I.try_repo_method(dom("P"), "append_child", [dom_node(st, "new")]))
            steps.append(I.try_repo_method(dom("new"), "append_child", [dom_node(st, "newchild")]))
            par = I.try_repo_method(st.nodes["newchild"][1], "parent_item", [])
            steps.append(I.try_repo_method(dom("P"), "append_child", [dom_node(st, "newchild")]))
            kids = {n: [x.fields[0].fields["_name"] for x in o.fields["children"]] for n, (it, o, info) in st.nodes.items() if "children" in o.fields}
            return (steps, par, kids, st.nodes["new"][1])
        paths = I.explore(thunk)
        out["paths"] = len(paths)

        def post(p):
            if p["kind"] == "panic":
                return prop != "C12" and False
            steps, par, kids, new_o = p["value"]
            if not all(isinstance(r, Enum) and r.variant == "Ok" for r in steps):
                return False
            parent_ok = isinstance(par, Enum) and par.variant == "Some" and isinstance(par.fields[0], Enum) and par.fields[0].fields[0] is new_o
            return bool(parent_ok and kids["new"] == [] and kids["P"] == ((["new"] if attach_first else []) + ["newchild"]))
        verdict, info, nq = K.decide(I, paths, post, timeout_s)
        out["queries"] = nq + I.feas_queries
        out["fns"] = K.fn_table(I)
        out["want"] = "ok"
        if verdict == "sat":
            mdl, p = info
            out["status"] = "sat"
            w = {"kinds": (), "gc": None, "action": "created_parent", "new": ("attached" if attach_first else "detached",), "ref": None, "specified": "ok"}
            if p["kind"] == "panic":
                w["panic"] = p["msg"]
            else:
                steps, par, kids, new_o = p["value"]
                w["parent_of_c"] = "resolved" if (isinstance(par, Enum) and par.variant == "Some") else "none"
                w["children_after"] = kids
            out["witness"] = w
        elif verdict == "unknown":
            out["status"] = "unknown"
            out["error"] = str(info)
    except (kernel.Unsupported, nomsem.Unsupported) as e:
        out["status"] = "unsupported"
        out["error"] = str(e)
    except Exception:
        import traceback
        out["status"] = "unsupported"
        out["error"] = "exception: " + traceback.format_exc()[-900:]
    out["wall"] = time.time() - t0
    return out


def work_attr(job):
    """set_attribute_node on P: P has `nattr` attributes and the children `kinds`; the new attribute's name is symbolic
    (it may or may not be the name of an existing one).  C14: keys along the walk element -> its attributes -> its children."""
    prop, nattr, kinds, timeout_s = job[:4]
    inuse = len(job) > 4 and job[4]          # the new attribute already belongs to another element (G)
    out = {"job": (kinds, None, "set_attribute_node", ("attrs%d" % nattr,) + (("in-use",) if inuse else ()), None, None), "status": "holds", "paths": 0, "queries": 0,
           "error": None, "fns": {}, "skipped": False}
    t0 = time.time()
    try:
        I = K.new_interp("debug", max_paths=4000)
        I.track_borrows = True
        st0 = build(kinds, None)
        names = [K.sym_str("an%d_" % i, 1) for i in range(nattr + 1)]
        I.assume(z3.And(*st0.cons))
        I.assume(sym.to_z3(And(*[c for _, c in names])))
        # existing attributes of one element have different names
        for i in range(nattr):
            for j in range(i + 1, nattr):
                I.assume(sym.to_z3(Not(sym.ceq(names[i][0][0].c, names[j][0][0].c))))
        extra_ids = [z3.BitVec("id_attr%d" % i, 64) for i in range(nattr + 1)]
        I.assume(z3.And(z3.Distinct(*(extra_ids + list(st0.ids.values()))), *[x != 0 for x in extra_ids], *[z3.ULT(x, 1 << 62) for x in extra_ids]))
        holder = {}

        def owner_doc(I, recv):
            return Some(1)
        I.mstubs = {("Context", "document"): lambda I, c: holder["st"].document, ("Context", "add_item"): lambda I, c, n: kernel.UNIT,
                    ("Context", "node"): lambda I, c, i: NONE}
        for domt, _ in DOM_T.values():
            I.mstubs[(domt, "owner_document")] = owner_doc

        def thunk(I):
            st = build(kinds, None)
            holder["st"] = st
            P = st.nodes["P"][1]
            attrs = []
            order = st.ordering.fields["order"]
            pos = [k_ for k_, inf in enumerate(order) if inf is st.nodes["P"][2]][0]
            for i in range(nattr + 1):
                info = K.mk_obj("ContextInfo", K.INFO, id=extra_ids[i], order_cache=0, order_version=0)
                ctx = K.mk_obj("Context", K.INFO, info=info, ordering=st.ordering, registry=st.registry)
                a = K.mk_obj("XmlAttribute", K.INFO, local_name=SStr(K.sym_str("an%d_" % i, 1)[0]), prefix=NONE, values=SVec(), context=ctx,
                             parent_id=Some(st.ids["P"]) if i < nattr else (Some(st.ids["G"]) if inuse else NONE), _name="attr%d" % i)
                attrs.append((a, info))
                if i < nattr:
                    P.fields["attributes"].append(K.mk_enum("XmlItem", K.INFO, "Attribute", a))
                    order.insert(pos + 1 + i, info)
                elif inuse:
                    st.nodes["G"][1].fields["attributes"].append(K.mk_enum("XmlItem", K.INFO, "Attribute", a))
                    order.insert(pos, info)          # right after G, before P
            recv = K.mk_obj("XmlElement", K.DOM, element=P)
            new_dom = K.mk_obj("XmlAttr", K.DOM, attribute=attrs[nattr][0])
            r = I.try_repo_method(recv, "set_attribute_node", [new_dom])
            alist = [x.fields[0].fields["_name"] if isinstance(x, Enum) else x.fields["_name"] for x in P.fields["attributes"]]
            keys = {}
            for name, (it, o, info) in st.nodes.items():
                keys[name] = I.try_repo_method(it, "order", [])
            for a, info in attrs:
                keys[a.fields["_name"]] = I.try_repo_method(a, "order", [])
            return (r, alist, keys)
        paths = I.explore(thunk)
        out["paths"] = len(paths)
        st_s = build(kinds, None)
        new_name = names[nattr][0]

        def post(p):
            if p["kind"] == "panic":
                return prop != "C13"
            r, alist, keys = p["value"]
            if inuse:
                # DOM Level 1: INUSE_ATTRIBUTE_ERR, and nothing changes
                same = alist == ["attr%d" % j for j in range(nattr)]
                walk = ["D", "G", "attr%d" % nattr, "P"] + ["attr%d" % j for j in range(nattr)] + [n for n in preorder(st_s.tree) if n not in ("D", "G", "P")]
                ks = [kernel.to_bv(keys[n]) for n in walk]
                good = And(*[k_ != 0 for k_ in ks], *[z3.ULT(a_, b_) for a_, b_ in zip(ks, ks[1:])])
                refused = isinstance(r, Enum) and r.variant == "Err" and err_class(r) == "InuseAttributeErr"
                return And(refused and same, good) if prop == "C13" else good
            if not (isinstance(r, Enum) and r.variant == "Ok"):
                return False
            # which existing attribute carries the new name?
            cases = []
            none = True
            for i in range(nattr):
                same = sym.ceq(names[i][0][0].c, new_name[0].c)
                want = ["attr%d" % j for j in range(nattr) if j != i] + ["attr%d" % nattr]
                cases.append((And(none, same), want, "attr%d" % i))
                none = And(none, Not(same))
            cases.append((none, ["attr%d" % j for j in range(nattr)] + ["attr%d" % nattr], None))
            alts = []
            for cond, want, replaced in cases:
                if prop == "C13":
                    ret = r.fields[0]
                    ret_ok = (isinstance(ret, Enum) and ret.variant == "None") if replaced is None else \
                             (isinstance(ret, Enum) and ret.variant == "Some" and any(isinstance(v, Obj) and v.fields.get("_name") == replaced for v in ret.fields[0].fields.values()))
                    alts.append(And(cond, alist == want and ret_ok))
                else:
                    walk = ["D", "G", "P"] + want + [n for n in preorder(st_s.tree) if n not in ("D", "G", "P")]
                    ks = [kernel.to_bv(keys[n]) for n in walk]
                    good = And(*[k_ != 0 for k_ in ks], *[z3.ULT(a_, b_) for a_, b_ in zip(ks, ks[1:])])
                    if replaced is not None:
                        good = And(good, kernel.to_bv(keys[replaced]) == 0)
                    alts.append(And(cond, alist == want, good))
            return Or(*alts)
        verdict, info, nq = K.decide(I, paths, post, timeout_s)
        out["queries"] = nq + I.feas_queries
        out["fns"] = K.fn_table(I)
        out["want"] = "ok"
        if verdict == "sat":
            mdl, p = info
            out["status"] = "sat"
            w = {"kinds": kinds, "gc": None, "action": "set_attribute_node", "new": ("attrs%d" % nattr,) + (("in-use",) if inuse else ()), "ref": None,
                 "specified": "InuseAttributeErr" if inuse else "ok"}
            if p["kind"] == "panic":
                w["panic"] = p["msg"]
            else:
                r, alist, keys = p["value"]
                w["result"] = "Ok" if (isinstance(r, Enum) and r.variant == "Ok") else err_class(r)
                w["attributes_after"] = alist
                w["keys_after"] = {n: (K.model_int(mdl, v) if not isinstance(v, int) else v) for n, v in keys.items()}
                w["names"] = [K.model_str(mdl, nm) for nm, _ in names]
            out["witness"] = w
        elif verdict == "unknown":
            out["status"] = "unknown"
            out["error"] = str(info)
    except (kernel.Unsupported, nomsem.Unsupported) as e:
        out["status"] = "unsupported"
        out["error"] = str(e)
    except Exception:
        import traceback
        out["status"] = "unsupported"
        out["error"] = "exception: " + traceback.format_exc()[-900:]
    out["wall"] = time.time() - t0
    return out


# ---- replay through the DOM API ------------------------------------------------------------------------------------

def render(kinds, gc):
    parts = []
    for i, kd in enumerate(kinds):
        if kd == "Element":
            parts.append("<e%d><gc/></e%d>" % (i, i) if gc == i else "<e%d/>" % i)
        elif kd == "Text":
            parts.append("t%d" % i)
        else:
            parts.append("<!--c%d-->" % i)
    return "<g><p>" + "".join(parts) + "</p></g>"


def label_of(name, kinds, who):
    if name == "D":
        return None
    if name == "G":
        return "g|"
    if name == "P":
        return "p|"
    if name == "g":
        return "gc|"
    if name == "newchild":
        return "newchild|"
    if name == "new":
        kd = who[1]
        return {"Element": "new|", "ElementWithChild": "new|", "Text": "#text|new", "Comment": "#comment|new", "Attribute": "new|"}[kd]
    if name == "foreign":
        return "foreign|"
    i = int(name[1:])
    return {"Element": "e%d|" % i, "Text": "#text|t%d" % i, "Comment": "#comment|c%d" % i}[kinds[i]]


def replay_case(w):
    if w["action"] == "created_parent":
        return {"op": "created_parent", "attach_first": w["new"][0] == "attached", "input": "<r/>"}
    if w["action"] == "set_attribute_node" and "in-use" in w["new"]:
        names = w.get("names") or ["a"]
        cls = [names.index(x) for x in names]
        attrs = "".join(" a%d='x'" % cls[i] for i in range(len(names) - 1))
        return {"op": "attr_inuse", "input": "<g a%d='used'><p%s/></g>" % (cls[-1], attrs), "name": "a%d" % cls[-1]}
    if w["action"] == "set_attribute_node":
        names = w.get("names") or ["a"]
        cls = [names.index(x) for x in names]          # look-alike classes of the attribute names; the last one is the new attribute
        attrs = "".join(" a%d='x'" % cls[i] for i in range(len(names) - 1))
        body = render(tuple(w["kinds"]), None)[len("<g><p>"):-len("</p></g>")]
        return {"op": "attr_order", "input": "<g><p%s>%s</p></g>" % (attrs, body), "name": "a%d" % cls[-1]}
    kinds, gc, action = tuple(w["kinds"]), w["gc"], w["action"]
    who = tuple(w["new"])
    newj = None
    if action != "remove_child":
        if who[0] == "new":
            newj = {"kind": {"Element": "new-element", "ElementWithChild": "new-subtree", "Text": "new-text", "Comment": "new-comment", "Attribute": "new-attribute"}[who[1]]}
        elif who[0] == "child":
            newj = {"kind": "child", "index": who[1]}
        elif who[0] == "grandchild":
            newj = {"kind": "grandchild", "index": gc}
        elif who[0] == "self":
            newj = {"kind": "self"}
        elif who[0] == "ancestor":
            newj = {"kind": "top"}
        else:
            newj = {"kind": "foreign-element"}
    ref = w["ref"]
    refj = None if ref is None else ({"kind": "new-element"} if ref == "stranger" else {"kind": "child", "index": ref})
    return {"op": "mutate", "input": render(kinds, gc), "parent": 0, "action": action, "new": newj, "ref": refj}


def expected_real(w):
    """what the real run must report for the specified behaviour: (ok?, error class, children of p, //node() order)"""
    kinds, gc = tuple(w["kinds"]), w["gc"]
    who = tuple(w["new"])
    tree = w["specified_children"]
    kids = [label_of(n, kinds, who) for n in tree["P"]]
    full = {n: list(v) for n, v in tree.items()}
    walk = [label_of(n, kinds, who) for n in preorder(full) if n != "D"]
    return kids, walk


def judge(case, out):
    if "panic" in out or "died" in out:
        return True
    if case.get("op") == "created_parent":
        return not (out.get("parent_of_c") == "p" and out.get("p_children_after_move") == [] and out.get("root_children_after_move", [])[-1:] == ["c"])
    if case.get("op") == "attr_inuse":
        return "InuseAttributeErr" not in str(out.get("err")) or out.get("printed_before") != out.get("printed_after")
    if case.get("op") == "attr_order":
        return not out.get("ok") or out.get("edited") != out.get("fresh")
    want = case.get("specified")
    if want == "ok":
        if not out.get("ok"):
            return True
    else:
        if out.get("ok") or not any(w_ in str(out.get("err")) for w_ in want.split("|")):
            return True
    if case.get("expected_children") is not None and out.get("after") != case["expected_children"]:
        return True
    if case.get("expected_walk") is not None and out.get("all_after") != case["expected_walk"]:
        return True
    if not out.get("parents_ok", True) or not out.get("links_ok", True):
        return True
    return False


def jobs_for(prop, tier):
    kmax = 2 if tier == "quick" else 3
    jobs = []
    kindsets = []
    for k in range(0, kmax + 1):
        for kinds in itertools.product(("Element", "Text", "Comment"), repeat=k):
            if any(a == "Text" and b == "Text" for a, b in zip(kinds, kinds[1:])):
                continue
            gcs = [None] + [i for i, kd in enumerate(kinds) if kd == "Element"][:1]
            for gc in gcs:
                kindsets.append((kinds, gc))
    for kinds, gc in kindsets:
        k = len(kinds)
        refs = [None] + list(range(k)) + ["stranger"]
        for who in NEWS:
            idxs = list(range(k)) if who[0] == "child" else [None]
            for idx in idxs:
                jobs.append((prop, kinds, gc, "append_child", who, idx, None, 120))
                for ref in refs:
                    jobs.append((prop, kinds, gc, "insert_before", who, idx, ref, 120))
                for ref in refs[1:]:
                    jobs.append((prop, kinds, gc, "replace_child", who, idx, ref, 120))
        for ref in refs[1:]:
            jobs.append((prop, kinds, gc, "remove_child", ("none",), None, ref, 120))
    if prop == "C12":
        jobs += [(prop, "created_parent", True, 120), (prop, "created_parent", False, 120)]
    if prop in ("C13", "C14"):
        for nattr in (0, 1, 2):
            for kinds in ((), ("Element",), ("Text", "Element")):
                jobs.append((prop, "set_attribute_node", nattr, kinds, 120))
            jobs.append((prop, "set_attribute_node", nattr, (), 120, True))
    return jobs


def obligations(rep, rp, prop, tier, jobs_n=16):
    jobs = jobs_for(prop, tier)
    with mp.Pool(min(jobs_n, len(jobs))) as pool:
        results = pool.map(work, jobs, chunksize=16)
    groups = {}
    known_open, _ = common.known_findings(prop)
    for res in results:
        if res.get("skipped"):
            continue
        kinds, gc, action, who, idx, ref = res["job"]
        rep.queries += res["queries"]
        rep.functions.update(res.get("fns", {}))
        g = groups.setdefault(action, {"shapes": 0, "holds": 0, "bad": [], "paths": 0})
        g["shapes"] += 1
        g["paths"] += res["paths"]
        if res["status"] == "holds":
            g["holds"] += 1
        elif res["status"] == "sat":
            g["bad"].append(res)
        else:
            rep.inconclusive.append("%s.s.tree.%s %s: %s" % (prop, action, res["job"], str(res["error"])[:300]))
    rep.bounds["tree_step"] = {"receiver": "an element P with a parent G", "children": "0..%d of Element/Text/Comment (no adjacent texts), optionally one grandchild" % (2 if tier == "quick" else 3),
                               "argument": [" ".join(w) for w in NEWS], "reference": "none / each child / a detached stranger",
                               "outside": "attributes and attribute values, document and fragment receivers, deeper subtrees, entity references, the merged-text view"}
    rep.assumptions.append("tree step: owner_document is a stub comparing a document tag; Context::node(id) returns the registered item; RefCell guards live to the end of their statement (or block when let-bound)")
    for action, g in sorted(groups.items()):
        oid = "%s.s.tree.%s" % (prop, action)
        status = "holds"
        classes = {}
        for res in g["bad"]:
            w = res["witness"]
            cls = classify(prop, w)
            classes.setdefault(cls, []).append(res)
        reported = []
        for cls, lst in sorted(classes.items()):
            lst.sort(key=lambda r: (len(r["job"][0]), str(r["job"])))
            confirmed = None
            for res in lst[:4]:
                w = res["witness"]
                case = replay_case(w)
                if case is None:
                    continue
                rr = rp.run(case)
                rep.replays += 1
                full = dict(case)
                full.update({"property": prop, "specified": w["specified"]})
                if "specified_children" in w and w["action"] != "created_parent":
                    kids, walk = expected_real(w)
                    if prop == "C13":
                        full["expected_children"] = kids
                    if prop == "C14":
                        full["expected_walk"] = walk
                    if prop == "C13" and w["specified"] != "ok":
                        full["expected_walk"] = walk
                if judge(full, rr):
                    confirmed = (w, full, rr)
                    break
            kf = [k for k in known_open if k.get("class") == cls]
            if confirmed and kf:
                w, full, rr = confirmed
                rep.known_finding(kf[0], "%s class=%s witness=%s %s(%s, %s)" % (kf[0].get("what", ""), cls, full["input"], action, json.dumps(full.get("new")), json.dumps(full.get("ref"))))
                reported.append((cls, "known"))
            elif confirmed:
                w, full, rr = confirmed
                status = "violated"
                if action == "set_attribute_node" and full.get("op") == "attr_inuse":
                    rep.violation(oid + "." + cls, full, "p.set_attribute_node(the attribute %s of <g>) on %s: %s; document before %s, after %s" % (
                        full.get("name"), full["input"], rr.get("err") or "succeeded", rr.get("printed_before"), rr.get("printed_after")))
                elif action == "set_attribute_node":
                    rep.violation(oid + "." + cls, full, "set_attribute(%s) on <p> of %s: XPath lists nodes and attributes as %s, a fresh parse of the result (%s) as %s" % (
                        full.get("name"), full["input"], rr.get("edited"), rr.get("printed"), rr.get("fresh")))
                elif action == "created_parent":
                    rep.violation(oid + "." + cls, full, "p = create_element (%s to <r>), p.append_child(c), then r.append_child(c): c.parent_node() is %s and p still lists %s afterwards (document: %s) - the id table no longer resolves the created parent" % (
                        "appended" if full.get("attach_first") else "not appended", rr.get("parent_of_c"), rr.get("p_children_after_move"), rr.get("printed")))
                else:
                    rep.violation(oid + "." + cls, full, "%s(%s, %s) on <p> of %s: specified %s, model %s, real code %s" % (
                        action, json.dumps(full.get("new")), json.dumps(full.get("ref")), full["input"], w["specified"],
                        w.get("panic") or w.get("result"), {k: rr.get(k) for k in ("ok", "err", "panic", "after", "all_after") if k in rr}))
                reported.append((cls, "violated"))
            else:
                if status == "holds":
                    status = "inconclusive"
                rep.inconclusive.append("%s: class %s has %d model witnesses, none reproduced (first: %s)" % (oid, cls, len(lst), lst[0]["witness"]))
        rep.obligation(oid, status, reach="sat", shapes=g["shapes"], shapes_holding=g["holds"], shapes_with_witness=len(g["bad"]), paths=g["paths"],
                       classes={c: len(v) for c, v in classes.items()}, reported=reported)
    try:
        translator_validation(rep, rp, prop, results)
    except Exception:
        import traceback
        rep.inconclusive.append("translator validation failed: " + traceback.format_exc()[-600:])


def translator_validation(rep, rp, prop, results):
    """every shape of the tree step is a concrete DOM call: run it on the compiled code (replay op `mutate`) and require the outcome class and
    the receiver's child list of one of the model's feasible paths.  A disagreement in which the compiled code also breaks the property's
    specified outcome for that call is a violation shown on the real code; any other disagreement = the encoding misrepresents the code."""
    agree, disagree, samples = 0, 0, []
    violated_actions = {v[0] for v in rep.violations}
    for res in results:
        tv = res.get("tv")
        if not tv or not tv["preds"] or res.get("skipped"):
            continue
        w = tv["w"]
        case = replay_case(w)
        if case is None:
            continue
        rr = rp.run(case)
        if "doc_err" in rr:
            continue
        kinds, who = tuple(w["kinds"]), tuple(w["new"]) if w["new"] else ()
        if "panic" in rr or "died" in rr:
            got = ("panic", None)
        else:
            got = ("Ok" if rr.get("ok") else str(rr.get("err")), rr.get("after"))
        ok = False
        for pr in tv["preds"]:
            if pr["result"] == "panic":
                ok = ok or got[0] == "panic"
                continue
            if got[0] == "panic":
                continue
            same_class = (got[0] == "Ok") if pr["result"] == "Ok" else (got[0] != "Ok" and pr["result"] in got[0])
            kids = [label_of(n, kinds, who) for n in (pr["children"] or [])]
            ok = ok or (same_class and kids == got[1])
        if ok:
            agree += 1
            if len(samples) < 6:
                samples.append({"case": case, "compiled_and_model": {"result": got[0], "children_of_p": got[1]}})
            continue
        disagree += 1
        oid = "%s.s.tree.%s" % (prop, w["action"])
        full = dict(case)
        full.update({"property": prop, "specified": w["specified"]})
        kids, walk = expected_real(w)
        if prop == "C13":
            full["expected_children"] = kids
        if prop == "C14" or (prop == "C13" and w["specified"] != "ok"):
            full["expected_walk"] = walk
        breaks = judge(full, rr) if not (prop != "C13" and ("panic" in rr or "died" in rr)) else False
        if breaks:
            if not any(v.startswith(oid) for v in violated_actions):
                violated_actions.add(oid)
                rep.violation(oid + ".tv", full, "%s(%s, %s) on <p> of %s: specified %s, the compiled code gives %s (the source-level model: %s; found by translator validation)" % (
                    w["action"], json.dumps(full.get("new")), json.dumps(full.get("ref")), full["input"], w["specified"],
                    {k: rr.get(k) for k in ("ok", "err", "panic", "after") if k in rr}, tv["preds"]))
                for o in rep.obligations:
                    if o["id"] == oid:
                        o["status"] = "violated"
        else:
            rep.inconclusive.append("translator validation %s: on %s the S-kernel's feasible paths give %s, the compiled code %s" % (
                oid, json.dumps(case)[:240], tv["preds"], {k: rr.get(k) for k in ("ok", "err", "panic", "after") if k in rr}))
    rep.tv_cases += agree
    rep.extra["translator_validation_tree_step" if "translator_validation" in rep.extra else "translator_validation"] = {"agreeing": agree, "disagreeing": disagree, "samples": samples,
                                          "how": "every shape of the tree step is a concrete DOM call (only ids and order keys are symbolic): it is run through /verif/replay (op mutate) and the compiled outcome - Ok / exception class / panic and the child list of the receiver - must be the one of a feasible path of the S-kernel"}


def classify(prop, w):
    """role of the failing call, so that a listed finding does not hide a different one"""
    who = w["new"][0] if w["new"] else "none"
    if w["action"] == "created_parent":
        return "created-parent:%s" % who
    if w["action"] == "set_attribute_node" and "in-use" in w["new"]:
        return "attribute-in-use"
    if w.get("panic"):
        return "panic:%s" % who
    if prop == "C14":
        if w["specified"] != "ok":
            return "keys-after-failure:%s" % who
        if who in ("child", "grandchild") or (who == "new" and w["new"][1] == "ElementWithChild"):
            return "keys-subtree-move"
        return "keys-after-%s" % w["action"]
    if w["specified"] != "ok":
        return "failure:%s:%s" % (w["specified"], who)
    return "effect:%s" % who


def main(prop):
    args = common.args_for(prop)
    rep = common.Report(args)
    if args.replay:
        return common.replay_generic(args, judge)
    try:
        rp = replay.Replay()
    except replay.ReplayError as e:
        rep.inconclusive.append(str(e))
        return rep.finish()
    obligations(rep, rp, prop, args.tier, args.jobs)
    rp.close()
    return rep.finish()


if __name__ == "__main__":
    sys.exit(main(sys.argv.pop(1)))
