"""C11 (declared type / default lookup part): which attributes an element reports, and the value of a defaulted one.

info XmlElement::attributes, attributes_specified, declaration_att_list, XmlDocument::document_declaration,
XmlDocumentTypeDeclaration::attributes, XmlAttribute::new_from_declaration, specified, declaration_def / declaration_type,
element and normalized_value are executed by the S-kernel on a bounded piece of the item graph built as objects:
a document whose DOCTYPE holds 1-2 ATTLIST declarations (symbolic one-character element names) with 1-2 attribute
definitions each (symbolic one-character names, type CDATA or NMTOKENS, default kind #REQUIRED / #IMPLIED / value / #FIXED
value, the default value a text piece of 3 symbolic characters), and an element (symbolic one-character name) with 0-1
written attribute (symbolic name).  Context::document / Context::node are stubs over that graph.

Specification (XML 1.0 sections 3.3, 3.3.2, 3.3.3): the definitions that apply to the element are those of EVERY ATTLIST
declaration naming it, the first definition of an attribute name binding; a definition with a default (or #FIXED) value whose
attribute is not written yields exactly one attribute flagged not specified, whose value is the declared default normalized
according to the declared type; #IMPLIED / #REQUIRED definitions yield nothing; written attributes are reported as they are.
"""
import time
import z3

import common
import kharness as K
from sx import kernel, kstd, sym, nomsem
from sx.kernel import Ch, SStr, SVec, Enum, Obj, Some, NONE, Ok, Err
from sx.sym import And, Or, Not

import c11

KINDS = ("required", "implied", "value", "fixed")


def shapes(tier):
    """[(attlists, written)]: attlists = tuple of declarations, each a tuple of (type, default kind) definitions"""
    out = []
    for ty in ("cdata", "tokenized"):
        for kind in KINDS:
            out.append(((((ty, kind),),), 0))
    one = lambda *defs: (tuple(defs),)                      # one declaration
    two = lambda d1, d2: (tuple(d1), tuple(d2))             # two declarations
    out.append((one(("tokenized", "value")), 1))
    out.append((one(("cdata", "fixed")), 1))
    # two definitions in one declaration; two declarations (the second one must count too)
    out.append((one(("cdata", "implied"), ("tokenized", "value")), 0))
    out.append((one(("cdata", "value"), ("cdata", "value")), 0))
    out.append((two([("cdata", "implied")], [("tokenized", "value")]), 0))
    out.append((two([("cdata", "value")], [("cdata", "value")]), 0))
    if tier != "quick":
        out.append((two([("cdata", "required")], [("cdata", "fixed")]), 1))
        out.append((two([("tokenized", "value"), ("cdata", "required")], [("cdata", "value")]), 1))
    return out


def s_eq(a, b):
    if len(a) != len(b):
        return False
    return And(*[sym.ceq(x.c, y.c) if not isinstance(y.c, int) else sym.ceq(x.c, y.c) for x, y in zip(a, b)])


def spec_value(I2, ty, dv):
    e = SStr()
    for ch in dv:
        e.append(Ch(0x20) if I2.truth(c11.is_ws(ch.c)) else ch)
    return c11.spec_collapse(I2, e) if ty == "tokenized" else e


def run_case(job):
    lists, written, timeout_s = job
    out = {"job": ("defaults", lists, written), "status": "holds", "paths": 0, "queries": 0, "error": None, "fns": {}}
    t0 = time.time()
    try:
        I = K.new_interp("debug", max_paths=20000)
        cons = []
        en, c = K.sym_str("en", 1)
        cons.append(c)
        eid, did = z3.BitVec("eid", 64), z3.BitVec("did", 64)
        cons.append(sym.to_z3(True))
        I.assume(z3.And(eid != 0, did != 0, eid != did))
        lnames, defs = [], []
        for li, l in enumerate(lists):
            ln, c = K.sym_str("ln%d_" % li, 1)
            cons.append(c)
            lnames.append(ln)
            row = []
            for di, (ty, kind) in enumerate(l):
                an, c = K.sym_str("an%d_%d_" % (li, di), 1)
                cons.append(c)
                dv, c = K.sym_str("dv%d_%d_" % (li, di), 3)
                import xmlref
                cons.append(And(c, *[And(xmlref.is_char(ch.c), Not(sym.c_in_str(ch.c, "<&\"%'"))) for ch in dv]))
                row.append((an, ty, kind, dv))
            defs.append(row)
        wnames = []
        for wi in range(written):
            wn, c = K.sym_str("wn%d_" % wi, 1)
            wv, c2 = K.sym_str("wv%d_" % wi, 1)
            cons += [c, c2]
            wnames.append((wn, wv))
        # one-letter names (never xmlns: a namespace declaration is not an attribute of the element)
        for nm in [en] + lnames + [d[0] for r in defs for d in r] + [w[0] for w in wnames]:
            cons.append(sym.cin(nm[0].c, 0x61, 0x7A))      # a-z: names of one letter
        I.assume(sym.to_z3(And(*cons)))
        holder = {}

        def ty_enum(ty):
            return K.mk_enum("XmlDeclarationAttType", K.INFO, "CData" if ty == "cdata" else "NmTokens")

        def thunk(I):
            ctx = K.mk_obj("Context", K.INFO)
            children = SVec()
            for li, row in enumerate(defs):
                atts = SVec()
                for (an, ty, kind, dv) in row:
                    if kind == "required":
                        val = K.mk_enum("XmlDeclarationAttDefault", K.INFO, "Required")
                    elif kind == "implied":
                        val = K.mk_enum("XmlDeclarationAttDefault", K.INFO, "Implied")
                    else:
                        piece = K.mk_enum("XmlAttributeValue", K.INFO, "Text", K.mk_obj("TextPiece", None, text=SStr(dv)))
                        val = K.mk_enum("XmlDeclarationAttDefault", K.INFO, "Value",
                                        Some(kernel.from_pystr("FIXED")) if kind == "fixed" else NONE, SVec([piece]))
                    d = Obj("XmlDeclarationAttDef", {"local_name": SStr(an), "prefix": NONE, "ty": ty_enum(ty), "value": val})
                    d.file = K.INFO
                    atts.append(d)
                al = K.mk_obj("XmlDeclarationAttList", K.INFO, local_name=SStr(lnames[li]), prefix=NONE, atts=atts, context=ctx)
                children.append(K.mk_enum("XmlItem", K.INFO, "DeclarationAttList", al))
            doctype = K.mk_obj("XmlDocumentTypeDeclaration", K.INFO, children=children, context=ctx)
            doc = K.mk_obj("XmlDocument", K.INFO, children=SVec([K.mk_enum("XmlItem", K.INFO, "DocumentType", doctype)]), context=ctx)
            holder["doc"] = doc
            attrs = SVec()
            elem = K.mk_obj("XmlElement", K.INFO, local_name=SStr(en), prefix=NONE, attributes=attrs, children=SVec(), context=ctx,
                            parent_id=Some(did), __id__=eid)
            for (wn, wv) in wnames:
                piece = K.mk_enum("XmlAttributeValue", K.INFO, "Text", K.mk_obj("TextPiece", None, text=SStr(wv)))
                a = K.mk_obj("XmlAttribute", K.INFO, local_name=SStr(wn), prefix=NONE, values=SVec([piece]), from_dtd=False,
                             parent_id=Some(eid), context=ctx)
                attrs.append(K.mk_enum("XmlItem", K.INFO, "Attribute", a))
            holder["registry"] = [(eid, K.mk_enum("XmlItem", K.INFO, "Element", elem)), (did, K.mk_enum("XmlItem", K.INFO, "Document", doc))]
            r = I.try_repo_method(elem, "attributes", [])
            items = r.fields["items"] if isinstance(r, Obj) and "items" in r.fields else r
            res = []
            for a in items:
                spec = I.try_repo_method(a, "specified", [])
                val = I.try_repo_method(a, "normalized_value", [])
                res.append((a, spec, val))
            # the specified value of every definition's default, computed in the same path exploration
            specs = [spec_value(I, ty, dv) if kind in ("value", "fixed") else None for row in defs for (an, ty, kind, dv) in row]
            return (res, specs)

        def ctx_node(I, ctx, id_):
            for key, it in holder["registry"]:
                if I.truth(kstd.v_eq(I, key, id_)):
                    return Some(it)
            return NONE
        I.mstubs = {
            ("Context", "node"): ctx_node, ("Context", "document"): lambda I, c: holder["doc"],
            ("Context", "zero"): lambda I, c: c, ("Context", "clone"): lambda I, c: c,
            ("XmlElement", "id"): lambda I, r: r.fields["__id__"],
            ("XmlElement", "context"): lambda I, r: r.fields["context"],
            ("XmlAttribute", "context"): lambda I, r: r.fields["context"],
            ("TextPiece", "as_text"): lambda I, r: Some(r),
        }
        paths = I.explore(thunk)
        out["paths"] = len(paths)

        # the specification
        applicable = []          # (name, type, kind, default chars, condition that this definition is the binding one)
        flat = [(lnames[li], d) for li, row in enumerate(defs) for d in row]
        for k, (ln, (an, ty, kind, dv)) in enumerate(flat):
            earlier = Or(*[And(s_eq(ln2, en), s_eq(an2, an)) for (ln2, (an2, _, _, _)) in flat[:k]]) if k else False
            applicable.append((an, ty, kind, dv, And(s_eq(ln, en), Not(earlier))))

        def post(p):
            if p["kind"] == "panic":
                return False
            res, specs = p["value"]
            conds = []
            dtd_items = [(a, sp, v) for (a, sp, v) in res if a.fields["from_dtd"] is True]
            own_items = [(a, sp, v) for (a, sp, v) in res if a.fields["from_dtd"] is not True]
            # written attributes are reported as they are, flagged specified
            conds.append(len(own_items) == len(wnames))
            for (a, sp, v), (wn, wv) in zip(own_items, wnames):
                conds.append(And(s_eq(a.fields["local_name"], wn), sp is True))
            for (a, sp, v) in dtd_items:
                conds.append(sp is False)
            for k, (an, ty, kind, dv, binding) in enumerate(applicable):
                is_written = Or(*[s_eq(wn, an) for (wn, _) in wnames]) if wnames else False
                due = And(binding, Not(is_written)) if kind in ("value", "fixed") else False
                hits = []
                for (a, sp, v) in dtd_items:
                    same = s_eq(a.fields["local_name"], an)
                    if isinstance(v, Enum) and v.variant == "Ok":
                        good = kstd.s_eq(I, v.fields[0], specs[k]) if specs[k] is not None else False
                    else:
                        good = False
                    hits.append((same, good))
                # due -> exactly one materialised attribute of that name, with the normalized default as its value
                if due is not False:
                    one = Or(*[And(same, good, *[Not(s2) for j, (s2, _) in enumerate(hits) if j != i]) for i, (same, good) in enumerate(hits)]) if hits else False
                    conds.append(sym.Implies(due, one))
            # nothing else is materialised: every not-specified attribute is due to some binding definition with a default
            for (a, sp, v) in dtd_items:
                why = []
                for (an, ty, kind, dv, binding) in applicable:
                    if kind in ("value", "fixed"):
                        is_written = Or(*[s_eq(wn, an) for (wn, _) in wnames]) if wnames else False
                        why.append(And(binding, Not(is_written), s_eq(a.fields["local_name"], an)))
                conds.append(Or(*why) if why else False)
            return And(*conds)
        verdict, info_, nq = K.decide(I, paths, post, timeout_s)
        out["queries"] = nq + I.feas_queries
        out["fns"] = K.fn_table(I)
        if verdict == "sat":
            mdl, p = info_
            out["status"] = "sat"
            e = K.model_str(mdl, en)
            dtd = ""
            for li, row in enumerate(defs):
                dtd += "<!ATTLIST %s" % K.model_str(mdl, lnames[li])
                for (an, ty, kind, dv) in row:
                    d = {"required": "#REQUIRED", "implied": "#IMPLIED"}.get(kind) or (("#FIXED " if kind == "fixed" else "") + "\"%s\"" % K.model_str(mdl, dv))
                    dtd += " %s %s %s" % (K.model_str(mdl, an), "CDATA" if ty == "cdata" else "NMTOKENS", d)
                dtd += ">"
            w = "".join(" %s=\"%s\"" % (K.model_str(mdl, wn), K.model_str(mdl, wv)) for wn, wv in wnames)
            out["witness"] = {"doc": "<!DOCTYPE %s [%s]><%s%s/>" % (e, dtd, e, w),
                              "expect": [[K.model_str(mdl, an), kind, ty, K.model_str(mdl, dv), bool(z3.is_true(mdl.eval(sym.to_z3(binding), model_completion=True)))]
                                         for (an, ty, kind, dv, binding) in applicable],
                              "panic": p.get("msg") if p["kind"] == "panic" else None}
        elif verdict == "unknown":
            out["status"] = "unknown"
            out["error"] = str(info_)
    except (kernel.Unsupported, nomsem.Unsupported) as e:
        out["status"] = "unsupported"
        out["error"] = str(e)
    except Exception:
        import traceback
        out["status"] = "unsupported"
        out["error"] = "exception: " + traceback.format_exc()[-900:]
    out["wall"] = time.time() - t0
    return out


def spec_attrs(doc_witness):
    """concrete oracle for the replay: expected {name: value} of not-specified attributes, from the witness' expectation rows"""
    exp = {}
    for an, kind, ty, dv, binding in doc_witness["expect"]:
        if binding and kind in ("value", "fixed"):
            v = "".join(" " if ch in "\t\r\n" else ch for ch in dv)
            if ty == "tokenized":
                v = " ".join(x for x in v.split(" ") if x)
            exp.setdefault(an, v)
    return exp


if __name__ == "__main__":
    import sys
    tier = sys.argv[1] if len(sys.argv) > 1 else "quick"
    for lists, written in shapes(tier):
        r = run_case((lists, written, 120))
        print(lists, written, r["status"], r["paths"], round(r["wall"], 1), r.get("error"), r.get("witness"))
