"""C01 / C02: document acceptance, decided per exact input length by z3 over the S-grammar encoding.

C02  impl_accepts(x) => x in WF_lenient          (every x of <= N scalar values, plus templates)
C01  x in WF_strict  => impl_accepts(x)
impl_accepts = xml_parser::document consumes all of x  AND  the info-level reject rules
"""
import json
import multiprocessing as mp
import os
import random
import sys
import time

import common
from common import Inconclusive, show
import z3
import xmlgram
import xmlref
from sx import nomsem, sym, replay
from sx.sym import And, Or, Not

# known-finding classes -> reference relaxation (lenient side only)
C02_CLASSES = ["name-first-char", "pe-in-entity-value"]

ALPHABET = "<>/=&;#!?-[]'\" \n\tax1:.%()|,*+"


# ------------------------------------------------------------------------------------------------
# translator / model validation on concrete documents


def corpus():
    c = json.load(open(os.path.join(common.ROOT, "spec", "corpus", "xml_docs.json")))
    return c


def mutate(rng, s):
    s = list(s)
    for _ in range(rng.choice([1, 1, 2])):
        op = rng.randrange(3)
        pos = rng.randrange(len(s) + 1)
        if op == 0 and s:
            del s[min(pos, len(s) - 1)]
        elif op == 1:
            s.insert(pos, rng.choice(ALPHABET))
        elif s:
            s[min(pos, len(s) - 1)] = rng.choice(ALPHABET)
    return "".join(s)


def oracle_selftest(rep):
    """the reference must label its own corpus correctly; expat is a second opinion on ASCII documents"""
    from xml.parsers import expat
    c = corpus()
    bad = []
    n = 0
    for lab in ("wf", "nwf", "gap"):
        for d in c[lab]:
            n += 1
            l = xmlref.accepts(d, "lenient")
            s = xmlref.accepts(d, "strict")
            want_l = lab in ("wf", "gap")
            want_s = lab == "wf"
            if l != want_l or s != want_s:
                bad.append((lab, d, l, s))
    if bad:
        raise Inconclusive("reference grammar fails its corpus: %r" % bad[:3])
    return n


def expat_accepts(s):
    from xml.parsers import expat
    p = expat.ParserCreate()
    try:
        p.Parse(s.encode("utf-8"), True)
        return True
    except expat.ExpatError:
        return False
    except Exception:
        return None


def translator_validation(rep, rp, seed, n_mut):
    """concrete Impl.accepts() must equal what xml_dom::XmlDocument::from_raw does on the real build"""
    rng = random.Random(seed)
    c = corpus()
    docs = list(c["wf"]) + list(c["nwf"]) + list(c["gap"])
    base = list(docs)
    for _ in range(n_mut):
        docs.append(mutate(rng, rng.choice(base)))
    g = xmlgram.grammar()
    n = 0
    # ATTLIST defaults that refer to entities: declared before / after the ATTLIST, undeclared, predefined
    docs += ["<!DOCTYPE r [<!ENTITY e 'v'><!ATTLIST r a CDATA '&e;'>]><r/>", "<!DOCTYPE r [<!ATTLIST r a CDATA '&e;'><!ENTITY e 'v'>]><r/>",
             "<!DOCTYPE r [<!ATTLIST r a CDATA 'x&u;'>]><r/>", "<!DOCTYPE r [<!ATTLIST r a CDATA #FIXED '&lt;&#65;'>]><r/>",
             "<!DOCTYPE r [<!ENTITY e 'v'>]><r a='&e;'>&e;</r>", "<!DOCTYPE r [<!ENTITY e 'v'>]><r>&f;</r>"]
    for d in docs:
        if len(d) > 140:
            continue
        try:
            import re
            ents = [(m.start(), m.group(1)) for m in re.finditer(r"<!ENTITY\s+([^\s%]+)\s", d)]
            att = d.find("<!ATTLIST")
            if d.count("<!ATTLIST") > 1 and ents:
                continue
            declared = [n for _, n in ents]
            before = [n for p, n in ents if att < 0 or p < att]
            impl = xmlgram.Impl(sym.Input.concrete(d), g, declared=declared, declared_before_attlist=before)
            pred_g = impl.grammar_accepts()
            pred = impl.accepts()
        except RecursionError:
            continue
        if not isinstance(pred, bool):
            raise Inconclusive("concrete run gave a symbolic condition")
        r1 = rp.run({"op": "document", "input": d})
        real_g = bool(r1.get("ok")) and r1.get("end") == len(d)
        if real_g != pred_g:
            raise Inconclusive("translator mismatch on %r: S-grammar says %s, xml_parser::document says %s" % (d, pred_g, r1))
        r2 = rp.run({"op": "from_raw", "input": d})
        if "panic" in r2 or "died" in r2:
            # unsupported constructs panic in info (C03's subject); acceptance is undefined there
            continue
        real = bool(r2.get("ok")) and r2.get("end") == len(d)
        if real != pred:
            raise Inconclusive("model mismatch on %r: model says %s, from_raw says %s" % (d, pred, r2))
        n += 1
    rep.tv_cases += n
    rep.functions.update(common.fn_table(g))
    return n


# ------------------------------------------------------------------------------------------------
# one length


def solve(s, timeout_s):
    s.set("timeout", int(timeout_s * 1000))
    t = time.time()
    r = s.check()
    return r, time.time() - t


def work(job):
    """runs in a worker process; returns plain data"""
    kind, spec, prop, known, timeout_s, seed = job
    out = {"job": (kind, str(spec)), "queries": 0, "solver_s": 0.0, "results": [], "error": None}
    t0 = time.time()
    try:
        if kind == "free":
            inp = sym.Input.symbolic(spec)
            declared = None
        else:
            inp = sym.Input.template(spec["parts"])
            declared = spec.get("declared")
        impl = xmlgram.Impl(inp, declared=declared)
        acc = impl.accepts()
        out["instances"] = getattr(impl, "instances", 0)
        wf = inp.wellformed()
        def new_solver():
            s = sym.solver(seed=seed)
            s.add(sym.to_z3(wf))
            return s
        # reachability twin: the implementation accepts something of this shape
        s = new_solver()
        s.add(sym.to_z3(acc))
        r, dt = solve(s, timeout_s)
        out["queries"] += 1
        out["solver_s"] += dt
        reach = str(r)
        sample = inp.from_model(s.model()) if r == z3.sat else None
        out["reach"] = reach
        out["sample"] = sample
        if prop == "C02":
            ref_all = xmlgram.reference(inp, "lenient", declared, relax=known)
            s = new_solver()
            s.add(sym.to_z3(acc), sym.to_z3(Not(ref_all)))
            r, dt = solve(s, timeout_s)
            out["queries"] += 1
            out["solver_s"] += dt
            res = {"q": "main", "r": str(r)}
            if r == z3.sat:
                res["witness"] = inp.from_model(s.model())
            out["results"].append(res)
            for k in known:
                rest = [x for x in known if x != k]
                ref_rest = xmlgram.reference(inp, "lenient", declared, relax=rest)
                s = new_solver()
                s.add(sym.to_z3(acc), sym.to_z3(Not(ref_rest)), sym.to_z3(ref_all))
                r, dt = solve(s, timeout_s)
                out["queries"] += 1
                out["solver_s"] += dt
                res = {"q": "known:" + k, "r": str(r)}
                if r == z3.sat:
                    res["witness"] = inp.from_model(s.model())
                out["results"].append(res)
        else:
            ref = xmlgram.reference(inp, "strict", declared)
            # antecedent twin
            s = new_solver()
            s.add(sym.to_z3(ref))
            r, dt = solve(s, timeout_s)
            out["queries"] += 1
            out["solver_s"] += dt
            out["reach"] = str(r)
            out["sample"] = inp.from_model(s.model()) if r == z3.sat else None
            s = new_solver()
            s.add(sym.to_z3(ref), sym.to_z3(Not(acc)))
            r, dt = solve(s, timeout_s)
            out["queries"] += 1
            out["solver_s"] += dt
            res = {"q": "main", "r": str(r)}
            if r == z3.sat:
                res["witness"] = inp.from_model(s.model())
            out["results"].append(res)
    except nomsem.Unsupported as e:
        out["error"] = "unsupported: %s" % e
    except Exception as e:  # noqa
        import traceback
        out["error"] = "exception: %s" % traceback.format_exc()[-800:]
    out["wall"] = time.time() - t0
    return out


# ------------------------------------------------------------------------------------------------


def templates(tier):
    """longer documents with symbolic holes: (name, parts, declared)"""
    T = []
    h = 3 if tier == "quick" else 5
    T.append(("dtd-entity-ref", ["<!DOCTYPE r [<!ENTITY e \"", h, "\">]><r a='&e;'>&", 2, ";</r>"], ["e"]))
    T.append(("dtd-attlist", ["<!DOCTYPE r [<!ATTLIST r a ", h + 2, " ", 2, ">]><r/>"], []))
    T.append(("dtd-attlist-default", ["<!DOCTYPE r [<!ENTITY e \"v\"><!ATTLIST r a CDATA \"", 4, "\">]><r/>"], ["e"]))
    T.append(("dtd-notation", ["<!DOCTYPE r [<!NOTATION n ", h + 2, ">]><r/>"], []))
    T.append(("dtd-element", ["<!DOCTYPE r [<!ELEMENT r ", h + 2, ">]><r/>"], []))
    T.append(("xmldecl", ["<?xml version=", 5, " ", h + 3, "?><r/>"], None))
    T.append(("xmldecl-late", [2, "<?xml version='1.0'?>", 2, "<r/>", 2], None))
    T.append(("two-roots", ["<r", 2, ">", h, "<", 3, ">"], None))
    T.append(("attrs", ["<r a", 1, "=\"", 2, "\" ", 2, "='", 2, "'", 2, ">"], None))
    T.append(("attrs-sep", ["<r a='x'", 2, "b=\"y\"", 2, "c='z'", 2, ">", 4], None))
    T.append(("attrs-uniq", ["<r ", 2, "='' ", 2, "='' ", 2, "=''/>"], None))
    T.append(("pi-comment", ["<r><?", h, "?><!--", h, "--></r>"], None))
    T.append(("cdata", ["<r><![CDATA[", h, "]]>", h, "</r>"], None))
    if tier == "thorough":
        T.append(("dtd-entity-value", ["<!DOCTYPE r [<!ENTITY e ", h + 3, ">]><r/>"], []))
        T.append(("doctype-extid", ["<!DOCTYPE r ", h + 5, "><r/>"], None))
        T.append(("nested", ["<a><b", 3, "><c/>", 3, "</b>", 3, "</a>"], None))
    return [(n, {"parts": p, "declared": d}) for n, p, d in T]


def capture_obligations(rep):
    """C01: what the grammar *captures* for keyword-like tokens, read from the map closures of parser/src/lib.rs and the
    constructors of parser/src/model.rs: every `map(tag(K), |_| model::T::V)` builds the variant the keyword names,
    standalone is true exactly for 'yes', decimal / hexadecimal character references keep their radix."""
    import re
    from sx import active
    g = xmlgram.grammar()
    f = xmlgram.GRAMMAR_FILES[0]
    bad, seen = [], 0

    def norm(x):
        return re.sub(r"[^a-z0-9]", "", x.lower())
    for key in list(g.dump.fns):
        if key[0] != f:
            continue
        ref = g.production(key[1], f)
        try:
            g.body_of(ref)
        except nomsem.Unsupported:
            continue
        for n in active.find_nodes(g, ref, lambda n: n.kind == "map" and isinstance(n.arg, dict) and n.arg.get("k") == "closure" and n.kids and n.kids[0].kind == "tag"):
            body = n.arg["body"]
            if body.get("k") == "path" and len(body["segs"]) >= 2 and body["segs"][0] == "model" and n.arg["params"][0].get("k") == "wild":
                seen += 1
                kw, variant = n.kids[0].arg, body["segs"][-1]
                if norm(kw) != norm(variant):
                    bad.append("%s: keyword %r builds %s" % (key[1], kw, "::".join(body["segs"])))
    # standalone
    sd = g.dump.fns.get((f, "sd_decl"))
    lits = []

    def walk(v):
        if isinstance(v, dict):
            if v.get("k") == "closure" and v["body"].get("k") == "binary" and v["body"]["op"] in ("==", "!="):
                b = v["body"]
                for side in (b["l"], b["r"]):
                    if side.get("k") == "lit" and side.get("t") == "str":
                        lits.append((b["op"], side["v"]))
            for x in v.values():
                walk(x)
        elif isinstance(v, list):
            for x in v:
                walk(x)
    walk(sd["body"] if sd else {})
    if lits != [("==", "yes")]:
        bad.append("sd_decl: standalone is not `value == \"yes\"` (%s)" % (lits or "shape not recognised"))
    else:
        seen += 1
    # char_ref radix
    cr = g.production("char_ref", f)
    body = g.body_of(cr)
    pairs = []
    for n in active.find_nodes(g, cr, lambda n: n.kind == "map" and isinstance(n.arg, dict) and n.arg.get("k") == "path"):
        cls = active.find_nodes_in(n, lambda x: x.kind == "class1" and isinstance(x.arg, nomsem.RangesPred))
        if len(cls) == 1:
            radix = 10 if sorted(cls[0].arg.ranges) == [(0x30, 0x39)] else 16
            pairs.append((radix, n.arg["segs"][-1]))
    model_f = xmlgram.GRAMMAR_FILES[1]
    for radix, ctor in pairs:
        fns = [fn for (ff, sty, nm), fl in g.dump.methods.items() if ff == model_f and sty.startswith("Reference") and nm == ctor for fn in fl]
        t = json.dumps(fns[0]["body"]) if fns else ""
        m = re.search(r'"t": "int", "v": "(\d+)"', t)
        if not m or int(m.group(1)) != radix:
            bad.append("char_ref: the radix-%d alternative is built by Reference::%s, which records radix %s" % (radix, ctor, m.group(1) if m else "?"))
        else:
            seen += 1
    if len(pairs) != 2:
        bad.append("char_ref: expected a decimal and a hexadecimal alternative")
    rep.obligation("C01.g.captures.keywords", "violated" if bad else "holds", reach="sat", sites=seen, detail=bad)
    return bad


def main(prop):
    args = common.args_for(prop)
    rep = common.Report(args)
    if args.replay:
        return replay_case(args, rep)
    N = {"quick": 14, "thorough": 17}[args.tier]
    timeout_s = {"quick": 300, "thorough": 2400}[args.tier]
    rep.bounds = {"free_mode_max_len": N, "alphabet": "all Unicode scalar values (21-bit)", "per_query_timeout_s": timeout_s,
                  "outside": "documents longer than N scalar values outside the template families; item construction beyond the reference checks; DOM views"}
    rep.assumptions += [
        "nom 7.1.3 combinator semantics as modelled in engine/sx/nomsem.py (tag, alt, opt, many0/1, separated_list, recognize, map, verify-equality, not, satisfy, split_at_position*_complete)",
        "UTF-8 decoding by str is trusted; the model works on scalar values",
        "equality of two outputs of the same production == equality of the consumed texts",
        "info-level acceptance = XmlCharReference::node / char_from_char10/16 (read from source) and Context::entity modelled as 'predefined or declared in the internal subset'; free mode has no declared entities because a document declaring and referencing one needs >= 38 characters",
        "reference grammar spec/xmlref.py transcribed from XML 1.0 5th ed.; self-tested on spec/corpus/xml_docs.json on every run",
    ]
    known_open, known_fixed = common.known_findings(prop)
    known = [k["class"] for k in known_open if k.get("class") in C02_CLASSES] if prop == "C02" else []
    try:
        n = oracle_selftest(rep)
        rep.extra["oracle_corpus_docs"] = n
        rp = replay.Replay()
        tv = translator_validation(rep, rp, args.seed, 150 if args.tier == "quick" else 600)
        rep.extra["translator_validation"] = "%d concrete documents: S-grammar+info model == xml_parser::document / XmlDocument::from_raw" % tv
    except (Inconclusive, nomsem.Unsupported, replay.ReplayError) as e:
        rep.inconclusive.append(str(e))
        return rep.finish()

    if prop == "C01":
        try:
            bad = capture_obligations(rep)
            if bad:
                rep.violation("C01.g.captures.keywords", {"op": "from_raw", "input": "<?xml version='1.0' standalone='yes'?><!DOCTYPE r [<!ATTLIST r a IDREFS #IMPLIED>]><r>&#x41;&#65;</r>",
                                                          "expect": "accepted with empty rest", "detail": bad, "property": "C01"}, "; ".join(bad))
        except (nomsem.Unsupported, KeyError, IndexError) as e:
            rep.inconclusive.append("capture obligations: %s" % e)
        # element content -> information items (text runs kept as they are, white space included)
        try:
            import c01elem
            c01elem.obligations(rep, rp, args.tier, args.jobs)
        except Exception as e:  # noqa
            rep.inconclusive.append("element content: %s: %s" % (type(e).__name__, e))
        # which declaration an entity reference denotes (first declaration binds; predefined entities)
        try:
            import c01ent
            c01ent.obligations(rep, rp, args.tier, args.jobs)
        except Exception as e:  # noqa
            rep.inconclusive.append("entity binding: %s: %s" % (type(e).__name__, e))
    jobs = [("free", L, prop, known, timeout_s, args.seed) for L in range(0, N + 1)]
    for name, spec in templates(args.tier):
        jobs.append(("tpl:" + name, spec, prop, known, timeout_s, args.seed))
    # longest first
    jobs.sort(key=lambda j: -(j[1] if isinstance(j[1], int) else 40))
    with mp.Pool(min(args.jobs, len(jobs))) as pool:
        results = pool.map(work, jobs, chunksize=1)

    seen_known = {}
    for res in results:
        kind, spec = res["job"]
        oid = "%s.g.%s" % (prop, ("len%s" % spec) if kind == "free" else kind)
        rep.queries += res["queries"]
        rep.solver_s += res["solver_s"]
        rep.extra["instances"] = rep.extra.get("instances", 0) + res.get("instances", 0)
        if res["error"]:
            rep.obligation(oid, "inconclusive", error=res["error"])
            rep.inconclusive.append("%s: %s" % (oid, res["error"][:200]))
            continue
        status = "holds"
        for r in res["results"]:
            if r["r"] == "unknown":
                status = "inconclusive"
                rep.inconclusive.append("%s/%s: solver unknown/timeout" % (oid, r["q"]))
            elif r["r"] == "sat":
                w = r["witness"]
                rr = rp.run({"op": "from_raw", "input": w})
                rep.replays += 1
                accepted = bool(rr.get("ok")) and rr.get("end") == len(w)
                if "panic" in rr or "died" in rr:
                    status = "inconclusive"
                    rep.inconclusive.append("%s: witness %s makes the real code panic (see C03): %s" % (oid, show(w), str(rr)[:120]))
                    continue
                if prop == "C02":
                    if not accepted:
                        status = "inconclusive"
                        rep.inconclusive.append("%s: model does not reproduce: %s -> %s" % (oid, show(w), rr))
                        continue
                    if r["q"].startswith("known:"):
                        seen_known.setdefault(r["q"][6:], w)
                        continue
                    if all(ord(ch) < 128 for ch in w) and expat_accepts(w) is True:
                        status = "inconclusive"
                        rep.inconclusive.append("%s: oracle disputed by expat on %s" % (oid, show(w)))
                        continue
                    status = "violated"
                    rep.violation(oid, {"op": "from_raw", "input": w, "expect": "rejected or rest non-empty", "property": prop},
                                  "ill-formed input %s is returned as a completely parsed document" % show(w))
                else:
                    if accepted:
                        status = "inconclusive"
                        rep.inconclusive.append("%s: model does not reproduce: %s is accepted by the real code" % (oid, show(w)))
                        continue
                    if all(ord(ch) < 128 for ch in w) and expat_accepts(w) is False:
                        status = "inconclusive"
                        rep.inconclusive.append("%s: oracle disputed by expat on %s" % (oid, show(w)))
                        continue
                    status = "violated"
                    rep.violation(oid, {"op": "from_raw", "input": w, "expect": "accepted with empty rest", "property": prop},
                                  "well-formed document %s is not accepted: %s" % (show(w), str(rr)[:100]))
        rep.obligation(oid, status, reach=res.get("reach"), sample=res.get("sample"), wall_s=round(res["wall"], 2),
                       queries=res["queries"])
        if res.get("sample"):
            rep.samples.append({"obligation": oid, "accepted_input_of_this_shape": res["sample"]})
    for k in known_open:
        cls = k.get("class")
        if cls in seen_known:
            rep.known_finding(k, "%s class=%s witness=%s" % (k.get("what", ""), cls, show(seen_known[cls])))
        elif cls in C02_CLASSES and prop == "C02":
            rep.extra.setdefault("known_classes_without_witness_in_bounds", []).append(cls)
    rp.close()
    return rep.finish()


def replay_case(args, rep):
    case = json.load(open(args.replay))
    if case.get("op") == "attr_value":
        import c01ent
        return common.replay_generic(args, c01ent.judge)
    if case.get("op") == "query":
        import c01elem
        return common.replay_generic(args, c01elem.judge)
    rp = replay.Replay()
    rr = rp.run({"op": case["op"], "input": case["input"]})
    w = case["input"]
    accepted = bool(rr.get("ok")) and rr.get("end") == len(w)
    print("replay %s: real code says %s" % (show(w), rr))
    bad = accepted if case.get("property") == "C02" else not accepted
    if bad:
        print("VIOLATION property=%s replay=%s" % (args.prop, args.replay))
        return 1
    print("does not reproduce on the current tree")
    return 0


if __name__ == "__main__":
    sys.exit(main(sys.argv.pop(1)))
