"""C06 (sibling navigation): XmlNode::next_sibling_child / previous_sibling_child from an arbitrary valid state.

eval::following_sibling / preceding_sibling / following / preceding walk `next_sibling()` / `previous_sibling()` until
None; they terminate iff each step moves strictly forward (backward) in the parent's child list.  The two functions
and everything they call - dom XmlNode::order (the per-variant dispatch), info HasContext::order with its cache, and
DocumentOrder::get - are executed symbolically by the S-kernel from source.

State: a parent of each navigable kind with k children (every kind up to 2 quick / 3 thorough, one more over Element, PI, EntityReference); every child is one of the DOM node
variants a child list can hold; the items are registered in a real DocumentOrder vector in document order, with
SYMBOLIC pairwise-distinct non-zero ids, a symbolic version and symbolic caches under C14's cache invariant.
Post: next_sibling_child(child i) is child i+1 (None for the last), previous_sibling_child(child i) is child i-1 (None
for the first).  One step from any valid state, so a walk over any child list of these kinds takes at most k steps.
"""
import time
import itertools
import z3

import common
import kharness as K
from sx import kernel, kstd, sym
from sx.kernel import Enum, Obj, Some, NONE, SVec
from sx.sym import And, Or, Not

# child variant -> (dom struct, field, info struct, text a parser turns into such a child of <r>)
CHILD = {
    "Element": ("XmlElement", "element", "XmlElement", "<e/>"),
    "Text": ("XmlText", "data", "XmlText", "t"),
    "CData": ("XmlCDataSection", "data", "XmlCData", "<![CDATA[c]]>"),
    "Comment": ("XmlComment", "data", "XmlComment", "<!--c-->"),
    "PI": ("XmlProcessingInstruction", "pi", "XmlProcessingInstruction", "<?p?>"),
    "EntityReference": ("XmlEntityReference", "value", "XmlUnexpandedEntityReference", "&e;"),
}
PARENTS = {"Element": "XmlElement", "Attribute": "XmlAttr", "EntityReference": "XmlEntityReference", "Entity": "XmlEntity",
           "Document": "XmlDocument", "DocumentFragment": "XmlDocumentFragment"}


def build(kinds):
    """-> (children as dom XmlNode values, constraints)"""
    k = len(kinds)
    ids = [z3.BitVec("id%d" % i, 64) for i in range(k + 1)]
    version = z3.BitVec("version", 64)
    cons = [z3.Distinct(*ids)] + [x != 0 for x in ids] + [z3.ULT(version, 1 << 62)]
    ordering = K.mk_obj("DocumentOrder", K.INFO, order=SVec(), version=version)
    nodes = []
    for i in range(k + 1):
        cache = z3.BitVec("cache%d" % i, 64)
        cv = z3.BitVec("cver%d" % i, 64)
        info = K.mk_obj("ContextInfo", K.INFO, id=ids[i], order_cache=cache, order_version=cv)
        ctx = K.mk_obj("Context", K.INFO, info=info, ordering=ordering)
        ordering.fields["order"].append(info)
        cons.append(z3.ULE(cv, version))
        cons.append(z3.Implies(cv == version, cache == i + 1))
        if i == 0:
            continue        # the parent's own entry
        domt, field, infot, _ = CHILD[kinds[i - 1]]
        # what the node's own PartialEq compares: one symbolic character (two children may or may not look alike)
        lab, lc = K.sym_str("lab%d_" % i, 1)
        cons.append(sym.to_z3(lc))
        lab = kernel.SStr(lab)
        data = {"XmlElement": dict(local_name=lab, prefix=NONE, children=SVec(), attributes=SVec()), "XmlText": dict(text=lab), "XmlCData": dict(data=lab),
                "XmlComment": dict(comment=lab), "XmlProcessingInstruction": dict(target=lab, content=NONE),
                "XmlUnexpandedEntityReference": dict(name=lab, entity=K.mk_obj("XmlEntity", K.INFO, name=lab, values=NONE, system_identifier=NONE,
                                                                                 public_identifier=NONE, notation_name=NONE))}[infot]
        item = K.mk_obj(infot, K.INFO, context=ctx, **data)
        if kinds[i - 1] == "EntityReference":
            item = K.mk_enum("XmlEntityReferenceValue", K.DOM, "Entity", item)
        nodes.append(K.mk_enum("XmlNode", K.DOM, kinds[i - 1], K.mk_obj(domt, K.DOM, **{field: item})))
    return nodes, z3.And(*cons)


def decide_shape(parent_kind, kinds, timeout_s=60):
    """-> (status, detail, queries, paths, fns)"""
    I = K.new_interp("debug")
    _, cons = build(kinds)
    I.assume(cons)
    holder = {}

    def children_stub(I, recv):
        return SVec(holder["nodes"])
    I.mstubs = {(PARENTS[parent_kind], "children"): children_stub}
    queries = 0
    npaths = 0
    for fn, step in (("next_sibling_child", 1), ("previous_sibling_child", -1)):
        for i in range(len(kinds)):
            def thunk(I, fn=fn, i=i):
                nodes, _ = build(kinds)
                holder["nodes"] = nodes
                parent = K.mk_enum("XmlNode", K.DOM, parent_kind, K.mk_obj(PARENTS[parent_kind], K.DOM))
                r = I.try_repo_method(parent, fn, [nodes[i]])
                return (r, nodes)
            paths = I.explore(thunk)
            npaths += len(paths)

            def post(p, i=i, step=step):
                if p["kind"] == "panic":
                    return False
                r, nodes = p["value"]
                j = i + step
                if 0 <= j < len(nodes):
                    return isinstance(r, Enum) and r.variant == "Some" and r.fields[0] is nodes[j]
                return isinstance(r, Enum) and r.variant == "None"
            verdict, info, nq = K.decide(I, paths, post, timeout_s)
            queries += nq
            if verdict == "sat":
                mdl, p = info
                got = None
                if p["kind"] == "ret":
                    r, nodes = p["value"]
                    if r.variant == "Some":
                        got = [n is r.fields[0] for n in nodes].index(True) if any(n is r.fields[0] for n in nodes) else "?"
                labels = [K.model_str(mdl, K.sym_str("lab%d_" % (c + 1), 1)[0]) for c in range(len(kinds))]
                classes = [labels.index(x) for x in labels]
                return "sat", {"fn": fn, "child": i, "model_returns_child": got, "expected_child": (i + step) if 0 <= i + step < len(kinds) else None,
                               "look_alike_classes": classes,
                               "panic": p.get("msg") if p["kind"] == "panic" else None}, queries + I.feas_queries, npaths, K.fn_table(I)
            if verdict != "holds":
                return "unknown", str(info), queries + I.feas_queries, npaths, K.fn_table(I)
    return "holds", None, queries + I.feas_queries, npaths, K.fn_table(I)


def work(job):
    parent_kind, kinds, timeout_s = job
    t0 = time.time()
    try:
        st, detail, q, npaths, fns = decide_shape(parent_kind, kinds, timeout_s)
        return {"job": (parent_kind, kinds), "status": st, "detail": detail, "queries": q, "paths": npaths, "fns": fns, "wall": time.time() - t0, "error": None}
    except (kernel.Unsupported, kernel.Panic) as e:
        return {"job": (parent_kind, kinds), "status": "error", "error": "%s: %s" % (type(e).__name__, e), "queries": 0, "paths": 0, "fns": {}, "wall": time.time() - t0}


def render(kinds, classes=None):
    """a document whose root has children of these kinds; children of one look-alike class get the same text"""
    classes = classes or list(range(len(kinds)))

    def one(k, i):
        return {"Element": "<e%d/>", "Text": "t%d", "CData": "<![CDATA[c%d]]>", "Comment": "<!--c%d-->", "PI": "<?p%d?>", "EntityReference": "&e%d;"}[k] % classes[i]
    decls = "".join("<!ENTITY e%d 'v%d'>" % (c, c) for c in sorted(set(classes[i] for i, k in enumerate(kinds) if k == "EntityReference")))
    return ("<!DOCTYPE r [%s]>" % decls if decls else "") + "<r>" + "".join(one(k, i) for i, k in enumerate(kinds)) + "</r>"


def judge(case, out):
    """replay judge: does the real code still return the wrong sibling for the recorded child?"""
    if "panic" in out or "died" in out:
        return True
    if not out.get("ok"):
        return False
    got = (out["next"] if case["fn"] == "next_sibling_child" else out["prev"])[case["child"]]
    return got != case["expected"]


def obligations(rep, rp, tier, jobs_n=16):
    """adds the C06.s.siblings obligations to rep; returns nothing"""
    import multiprocessing as mp
    # every kind up to kfull children, one more child over the kinds whose order() takes a path of its own
    kfull = 2 if tier == "quick" else 3
    kmax = kfull + 1
    kinds_all = list(CHILD)
    core = ["Element", "PI", "EntityReference"]
    jobs = []
    for k in range(1, kfull + 1):
        for kinds in itertools.product(kinds_all, repeat=k):
            jobs.append(("Element", kinds, 60))
    for kinds in itertools.product(core, repeat=kmax):
        jobs.append(("Element", kinds, 60))
    # the other navigable parents run the same code after a different match arm: one shape each per child kind pair
    for pk in PARENTS:
        if pk != "Element":
            for kinds in itertools.product(core, repeat=2):
                jobs.append((pk, kinds, 60))
    with mp.Pool(min(jobs_n, len(jobs))) as pool:
        results = pool.map(work, jobs, chunksize=8)
    bad = []
    n_holds = 0
    for res in results:
        rep.queries += res["queries"]
        rep.functions.update(res.get("fns", {}))
        if res["status"] == "holds":
            n_holds += 1
        elif res["status"] == "sat":
            bad.append(res)
        else:
            rep.inconclusive.append("siblings %s/%s: %s" % (res["job"][0], ",".join(res["job"][1]), res.get("error") or res.get("detail")))
    rep.bounds["sibling_navigation"] = {"children_per_parent": "%d over all child kinds, %d over %s" % (kfull, kmax, core), "child_kinds": kinds_all, "parent_kinds": list(PARENTS),
                                        "shapes": len(jobs), "outside": "ExpandedText children (merged-text view); more children than the bound; order keys of items that are not registered in the order vector"}
    rep.assumptions.append("sibling navigation: every child of a parent is registered in the DocumentOrder vector (C14's invariant: pairwise-distinct non-zero ids, cache valid or stale); <Parent>::children() returns the child list")
    status = "holds"
    confirmed = None
    # smallest witness first; replay: the real next_sibling()/previous_sibling() on a parsed document of that shape
    bad.sort(key=lambda r: (len(r["job"][1]), r["job"][0] != "Element"))
    for res in bad[:6]:
        pk, kinds = res["job"]
        if pk != "Element":
            continue
        doc = render(kinds, res["detail"].get("look_alike_classes"))
        rr = rp.run({"op": "siblings", "input": doc})
        rep.replays += 1
        d = res["detail"]
        if rr.get("ok") and rr.get("kinds") == list(kinds):
            i = d["child"]
            got = (rr["next"] if d["fn"] == "next_sibling_child" else rr["prev"])[i]
            want = d["expected_child"] if d["expected_child"] is not None else -1
            if got != want:
                confirmed = (doc, d, got, want)
                break
    if bad and confirmed:
        doc, d, got, want = confirmed
        status = "violated"
        rep.violation("C06.s.siblings", {"op": "siblings", "input": doc, "property": "C06", "fn": d["fn"], "child": d["child"], "expected": want},
                      "%s of child %d of <r> in %s returns child %s instead of %s: a walk over the siblings does not advance (following-sibling::/preceding-sibling::/following::/preceding:: never return)"
                      % (d["fn"].replace("_child", ""), d["child"], common.show(doc), got, want))
    elif bad:
        status = "inconclusive"
        rep.inconclusive.append("siblings: %d model witnesses (first: %s %s) did not reproduce on the real code" % (len(bad), bad[0]["job"], bad[0]["detail"]))
    rep.obligation("C06.s.siblings", status, reach="sat", shapes=len(jobs), shapes_holding=n_holds, shapes_with_witness=len(bad),
                   first_witness=(bad[0]["job"], bad[0]["detail"]) if bad else None)
