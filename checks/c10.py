"""C10 (namespace kernel): in-scope namespaces, expanded names of elements and attributes, name-test matching.

Executed by the S-kernel from source:
  scope      info XmlElement::in_scope_namespace / namespaces on a chain document -> e1 -> .. -> ed (d <= 2 quick / 3 thorough),
             every element carrying 0-2 namespace declarations whose prefix (none, or 1 symbolic character) and URI (empty, or 1
             symbolic character) are symbolic.  Post (Namespaces in XML 1.0, sections 3 and 6): for every prefix the nearest
             enclosing declaration is the binding; a declaration with an empty URI removes the binding; `xml` is always bound to
             the XML namespace; nothing else is in scope.
  expanded   dom AsExpandedName for XmlElement and XmlAttr over an in-scope set of <= 2 bindings with symbolic prefixes / URIs:
             a prefixed name takes the URI bound to its prefix; an unprefixed ELEMENT takes the default namespace; an unprefixed
             ATTRIBUTE is in no namespace, whatever the default namespace is.
  bindings   model::Context::add_ns / remove_ns / get_ns_uri over histories of <= 3 calls with symbolic prefixes and URIs: the
             binding of a prefix is the last one added and not removed (re-binding replaces).
  name-test  eval::equal_qname with model::Context::expanded_name over the caller's bindings (<= 2, symbolic): a node is kept iff
             the local parts are equal and the namespace URIs are equal (prefixes are irrelevant), an unbound prefix in the
             expression is an error.
"""
import sys
import time
import json
import itertools
import multiprocessing as mp
import z3

import common
from common import show
import kharness as K
from sx import kernel, kstd, sym, replay, nomsem
from sx.kernel import Enum, Obj, Ok, Err, Some, NONE, SStr, SVec, Ch
from sx.sym import And, Or, Not

XML_NS = "http://www.w3.org/XML/1998/namespace"
TV_LIMIT = 40      # concrete representatives per shape (one per feasible path)


def s_eq(a, b):
    """equality of two character lists as a term"""
    if len(a) != len(b):
        return False
    return And(*[sym.ceq(x.c, y.c) for x, y in zip(a, b)])


def opt_eq(pa, pb):
    """Option<str> equality; None is Python None"""
    if pa is None or pb is None:
        return pa is None and pb is None
    return s_eq(pa, pb)


def mk_name(tag, shape):
    """shape: None -> no string; int n -> n symbolic characters"""
    if shape is None:
        return None, True
    s, c = K.sym_str(tag, shape)
    # prefixes / local parts are names: keep them away from the literal 'xmlns' machinery by being 1 character long
    return s, c


# ---- translator validation: one concrete representative per feasible model path ---------------------------------------

def tv_models(I, paths, limit):
    """-> [(model, path)] for at most `limit` paths that are satisfiable together with the harness assumptions, and the query count"""
    res, n = [], 0
    for p in paths:
        if len(res) >= limit:
            break
        s = z3.Solver()
        s.set("timeout", 20000)
        for c in I.base:
            s.add(c)
        for c in p["pc"]:
            s.add(c)
        n += 1
        if s.check() == z3.sat:
            res.append((s.model(), p))
    return res, n


def mbool(mdl, x):
    if isinstance(x, bool):
        return x
    return z3.is_true(mdl.eval(sym.to_z3(x), model_completion=True))


def mopt(mdl, e):
    """Option<String> value of the model -> str | None"""
    if isinstance(e, Enum):
        return K.model_str(mdl, e.fields[0]) if e.variant == "Some" else None
    return K.model_str(mdl, e)


def tv_outcome(mdl, p, value_of):
    """the model's prediction on path p under mdl: {'kind': 'panic'} | {'kind': 'err'} | {'kind': 'ok', 'value': value_of(payload)}"""
    if p["kind"] == "panic":
        return {"kind": "panic", "msg": str(p.get("msg"))[:100]}
    r = p["value"]
    if isinstance(r, Enum) and r.variant == "Err":
        return {"kind": "err"}
    if isinstance(r, Enum) and r.variant == "Ok":
        return {"kind": "ok", "value": value_of(r.fields[0])}
    return {"kind": "ok", "value": value_of(r)}


# ---- expanded names -------------------------------------------------------------------------------------------

def work_expanded(job):
    kind, has_prefix, binds, timeout_s = job          # binds: tuple of prefix shapes (None | 1) of the in-scope bindings
    out = {"job": ("expanded", kind, has_prefix, binds), "status": "holds", "paths": 0, "queries": 0, "error": None, "fns": {}}
    t0 = time.time()
    try:
        I = K.new_interp("debug")
        cons = []
        local, c = K.sym_str("local", 1)
        cons.append(c)
        pfx, c = mk_name("pfx", 1 if has_prefix else None)
        cons.append(c)
        bp, bu = [], []
        for i, sh in enumerate(binds):
            p, c = mk_name("bp%d_" % i, sh)
            cons.append(c)
            u, c = K.sym_str("bu%d_" % i, 1)
            cons.append(c)
            bp.append(p)
            bu.append(u)
        # the in-scope set has one binding per prefix
        for i in range(len(binds)):
            for j in range(i + 1, len(binds)):
                cons.append(Not(opt_eq(bp[i], bp[j])))
        I.assume(sym.to_z3(And(*cons)))
        holder = {}

        def thunk(I):
            local = K.sym_str("local", 1)[0]
            pfx = K.sym_str("pfx", 1)[0] if has_prefix else None
            nss = []
            for i, sh in enumerate(binds):
                p = K.sym_str("bp%d_" % i, sh)[0] if sh else None
                u = K.sym_str("bu%d_" % i, 1)[0]
                info = K.mk_obj("XmlNamespace", K.INFO, prefix=Some(SStr(p)) if p is not None else NONE, namespace_name=SStr(u), implicit=False)
                nss.append(K.mk_obj("XmlNamespace", K.DOM, namespace=info))
            holder["nss"] = nss
            if kind == "element":
                info = K.mk_obj("XmlElement", K.INFO, local_name=SStr(local), prefix=Some(SStr(pfx)) if pfx is not None else NONE)
                dom = K.mk_obj("XmlElement", K.DOM, element=info)
            else:
                info = K.mk_obj("XmlAttribute", K.INFO, local_name=SStr(local), prefix=Some(SStr(pfx)) if pfx is not None else NONE)
                dom = K.mk_obj("XmlAttr", K.DOM, attribute=info)
            return I.try_repo_method(dom, "as_expanded_name", [])
        # the attribute's element and the element's scope are stubs: the scope computation has its own obligation
        def in_scope(I, recv):
            if recv.file == K.DOM:
                return Ok(SVec(holder["nss"]))
            return NotImplemented
        I.mstubs = {("XmlAttribute", "owner_element"): lambda I, r: Ok(K.mk_obj("XmlElement", K.INFO)),
                    ("XmlElement", "in_scope_namespace"): lambda I, r: Ok(SVec(holder["nss"]))}
        paths = I.explore(thunk)
        out["paths"] = len(paths)

        def post(p):
            if p["kind"] == "panic":
                return False
            r = p["value"]
            if not (isinstance(r, Enum) and r.variant == "Ok" and isinstance(r.fields[0], Enum) and r.fields[0].variant == "Some"):
                return False
            lp, _, uri = r.fields[0].fields[0]
            conds = [s_eq(lp, local)]
            # the specified URI
            cases = []
            none_matches = True
            for i in range(len(binds)):
                hit = opt_eq(bp[i], pfx) if (has_prefix or kind == "element") else False
                if hit is False:
                    continue
                is_it = isinstance(uri, Enum) and uri.variant == "Some" and s_eq(uri.fields[0], bu[i])
                cases.append(And(hit, is_it))
                none_matches = And(none_matches, Not(hit))
            cases.append(And(none_matches, isinstance(uri, Enum) and uri.variant == "None"))
            conds.append(Or(*cases))
            return And(*conds)
        verdict, info, nq = K.decide(I, paths, post, timeout_s)
        out["queries"] = nq + I.feas_queries
        out["fns"] = K.fn_table(I)
        ms, nq2 = tv_models(I, paths, TV_LIMIT)
        out["queries"] += nq2
        out["tv"] = [{"what": "expanded", "node": kind, "local": K.model_str(m, local), "prefix": K.model_str(m, pfx) if pfx is not None else None,
                      "bindings": [(K.model_str(m, bp[i]) if bp[i] is not None else None, K.model_str(m, bu[i])) for i in range(len(binds))],
                      "pred": tv_outcome(m, q, lambda v: None if v.variant == "None" else [K.model_str(m, v.fields[0][0]), mopt(m, v.fields[0][1]), mopt(m, v.fields[0][2])])}
                     for m, q in ms]
        if verdict == "sat":
            mdl, p = info
            out["status"] = "sat"
            w = {"what": "expanded", "node": kind, "prefixed": has_prefix, "bindings": [("default" if b is None else "prefix") for b in binds]}
            if p["kind"] == "panic":
                w["panic"] = p["msg"]
            else:
                r = p["value"]
                try:
                    uri = r.fields[0].fields[0][2]
                    w["uri"] = K.model_str(mdl, uri.fields[0]) if uri.variant == "Some" else None
                except Exception:  # noqa
                    w["result"] = str(r)[:120]
                w["bound"] = [(K.model_str(mdl, bp[i]) if bp[i] is not None else None, K.model_str(mdl, bu[i])) for i in range(len(binds))]
                w["prefix"] = K.model_str(mdl, pfx) if pfx is not None else None
            out["witness"] = w
        elif verdict == "unknown":
            out["status"] = "unknown"
            out["error"] = str(info)
    except (kernel.Unsupported, nomsem.Unsupported) as e:
        out["status"] = "unsupported"
        out["error"] = str(e)
    except Exception:
        import traceback
        out["status"] = "unsupported"
        out["error"] = "exception: " + traceback.format_exc()[-700:]
    out["wall"] = time.time() - t0
    return out


# ---- name tests ----------------------------------------------------------------------------------------------------

def work_nametest(job):
    test_prefixed, node_uri, binds, timeout_s = job      # binds: prefix shapes of the caller's bindings (1 = prefixed; no default binding)
    out = {"job": ("name-test", test_prefixed, node_uri, binds), "status": "holds", "paths": 0, "queries": 0, "error": None, "fns": {}}
    t0 = time.time()
    try:
        I = K.new_interp("debug")
        I.files_in_scope = (K.XFUNC, K.XMODEL, K.XEVAL)
        cons = []
        nl, c = K.sym_str("nl", 1)
        cons.append(c)
        nu, c = mk_name("nu", 1 if node_uri else None)
        cons.append(c)
        tl, c = K.sym_str("tl", 1)
        cons.append(c)
        tp, c = mk_name("tp", 1 if test_prefixed else None)
        cons.append(c)
        bp, bu = [], []
        for i, sh in enumerate(binds):
            p, c = K.sym_str("cp%d_" % i, 1)
            cons.append(c)
            u, c = K.sym_str("cu%d_" % i, 1)
            cons.append(c)
            bp.append(p)
            bu.append(u)
        for i in range(len(binds)):
            for j in range(i + 1, len(binds)):
                cons.append(Not(s_eq(bp[i], bp[j])))
        I.assume(sym.to_z3(And(*cons)))

        def thunk(I):
            nl = K.sym_str("nl", 1)[0]
            nu = K.sym_str("nu", 1)[0] if node_uri else None
            tl = K.sym_str("tl", 1)[0]
            tp = K.sym_str("tp", 1)[0] if test_prefixed else None
            ctx = K.mk_obj("Context", K.XMODEL, size=SVec(), position=SVec(),
                           namespaces=SVec([(Some(SStr(K.sym_str("cp%d_" % i, 1)[0])), SStr(K.sym_str("cu%d_" % i, 1)[0])) for i in range(len(binds))]))
            node = K.mk_obj("NodeStub", None, name=(SStr(nl), NONE, Some(SStr(nu)) if nu is not None else NONE))
            if tp is not None:
                q = K.mk_enum("QName", None, "Prefixed", K.mk_obj("PrefixedName", None, prefix=SStr(tp), local_part=SStr(tl)))
            else:
                q = K.mk_enum("QName", None, "Unprefixed", SStr(tl))
            return I.call_fn(K.XEVAL, I.dump.fns[(K.XEVAL, "equal_qname")], [q, node, ctx])
        I.mstubs = {("NodeStub", "as_expanded_name"): lambda I, r: Ok(Some(r.fields["name"]))}
        paths = I.explore(thunk)
        out["paths"] = len(paths)

        def post(p):
            if p["kind"] == "panic":
                return False
            r = p["value"]
            is_ok = isinstance(r, Enum) and r.variant == "Ok"
            is_err = isinstance(r, Enum) and r.variant == "Err"
            same_local = s_eq(nl, tl)
            if not test_prefixed:
                want = And(same_local, nu is None)
                return is_ok and _iff(r.fields[0], want)
            cases = []
            unbound = True
            for i in range(len(binds)):
                hit = s_eq(bp[i], tp)
                want = And(same_local, nu is not None and s_eq(nu, bu[i]))
                cases.append(And(hit, is_ok and _iff(r.fields[0], want)))
                unbound = And(unbound, Not(hit))
            cases.append(And(unbound, is_err))
            return Or(*cases)
        verdict, info, nq = K.decide(I, paths, post, timeout_s)
        out["queries"] = nq + I.feas_queries
        out["fns"] = K.fn_table(I)
        ms, nq2 = tv_models(I, paths, TV_LIMIT)
        out["queries"] += nq2
        out["tv"] = [{"what": "name-test", "node_local": K.model_str(m, nl), "node_uri": K.model_str(m, nu) if nu is not None else None,
                      "test_local": K.model_str(m, tl), "test_prefix": K.model_str(m, tp) if tp is not None else None,
                      "bindings": [(K.model_str(m, bp[i]), K.model_str(m, bu[i])) for i in range(len(binds))],
                      "pred": tv_outcome(m, q, lambda v: mbool(m, v))}
                     for m, q in ms]
        if verdict == "sat":
            mdl, p = info
            out["status"] = "sat"
            out["witness"] = {"what": "name-test", "test_prefixed": test_prefixed, "node_in_namespace": node_uri, "caller_bindings": len(binds),
                              "result": str(p.get("value"))[:80], "panic": p.get("msg")}
        elif verdict == "unknown":
            out["status"] = "unknown"
            out["error"] = str(info)
    except (kernel.Unsupported, nomsem.Unsupported) as e:
        out["status"] = "unsupported"
        out["error"] = str(e)
    except Exception:
        import traceback
        out["status"] = "unsupported"
        out["error"] = "exception: " + traceback.format_exc()[-700:]
    out["wall"] = time.time() - t0
    return out


def _iff(got, want):
    if isinstance(got, bool) and isinstance(want, bool):
        return got == want
    return sym.Iff(got, want)


# ---- scope chain ---------------------------------------------------------------------------------------------------

def work_scope(job):
    levels, timeout_s = job       # levels: tuple (outermost first) of tuples of declaration shapes ((prefix None|1), (uri 0|1))
    out = {"job": ("scope", levels), "status": "holds", "paths": 0, "queries": 0, "error": None, "fns": {}}
    t0 = time.time()
    try:
        I = K.new_interp("debug", max_paths=20000)
        cons = []
        decl = []      # per level list of (prefix chars|None, uri chars (possibly empty))
        for li, lv in enumerate(levels):
            row = []
            for di, (psh, ush) in enumerate(lv):
                p, c = mk_name("p%d_%d_" % (li, di), psh)
                cons.append(c)
                u, c = K.sym_str("u%d_%d_" % (li, di), ush)
                cons.append(c)
                row.append((p, u))
            # one element cannot declare a prefix twice (attribute uniqueness, C02)
            for a in range(len(row)):
                for b in range(a + 1, len(row)):
                    cons.append(Not(opt_eq(row[a][0], row[b][0])))
            # a declared prefix is not the reserved 'xml' (a one-character prefix never is)
            decl.append(row)
        I.assume(sym.to_z3(And(*cons)))
        holder = {}
        ids = [z3.BitVec("eid%d" % i, 64) for i in range(len(levels) + 1)]
        I.assume(z3.And(z3.Distinct(*ids), *[x != 0 for x in ids]))

        def ctx_node(I, ctx, id_):
            for key, it in holder["registry"]:
                if I.truth(kstd.v_eq(I, key, id_)):
                    return Some(it)
            return NONE

        def thunk(I):
            registry = []
            holder["registry"] = registry
            ctx = K.mk_obj("Context", K.INFO)
            doc = K.mk_obj("XmlDocument", K.INFO, context=Some(ctx))
            registry.append((ids[0], K.mk_enum("XmlItem", K.INFO, "Document", doc)))
            elems = []
            for li, lv in enumerate(levels):
                attrs = SVec()
                for di, (psh, ush) in enumerate(lv):
                    p = K.sym_str("p%d_%d_" % (li, di), psh)[0] if psh else None
                    u = K.sym_str("u%d_%d_" % (li, di), ush)[0]
                    # xmlns="u"  -> local name 'xmlns', no prefix;  xmlns:p="u" -> prefix 'xmlns', local name p
                    if p is None:
                        a = K.mk_obj("XmlAttribute", K.INFO, local_name=kernel.from_pystr("xmlns"), prefix=NONE, _uri=SStr(u), context=ctx)
                    else:
                        a = K.mk_obj("XmlAttribute", K.INFO, local_name=SStr(p), prefix=Some(kernel.from_pystr("xmlns")), _uri=SStr(u), context=ctx)
                    attrs.append(K.mk_enum("XmlItem", K.INFO, "Attribute", a))
                e = K.mk_obj("XmlElement", K.INFO, attributes=attrs, children=SVec(), context=ctx, parent_id=Some(ids[li]))
                registry.append((ids[li + 1], K.mk_enum("XmlItem", K.INFO, "Element", e)))
                elems.append(e)
            r = I.try_repo_method(elems[-1], "in_scope_namespace", [])
            return r
        I.mstubs = {("Context", "node"): ctx_node, ("XmlAttribute", "normalized_value"): lambda I, r: Ok(SStr(r.fields["_uri"])),
                    ("Context", "zero"): lambda I, c: c, ("Context", "clone"): lambda I, c: c}
        paths = I.explore(thunk)
        out["paths"] = len(paths)
        # specification: walk from the innermost level outwards, first declaration of a prefix wins; empty URI = not in scope
        flat = []
        for li in range(len(levels) - 1, -1, -1):
            for (p, u) in decl[li]:
                flat.append((p, u))

        def post(p_):
            if p_["kind"] == "panic":
                return False
            r = p_["value"]
            if not (isinstance(r, Enum) and r.variant == "Ok"):
                return False
            items = r.fields[0].fields["items"] if isinstance(r.fields[0], Obj) else r.fields[0]
            got = []
            for ns in items:
                pf = ns.fields["prefix"]
                got.append((pf.fields[0] if pf.variant == "Some" else None, ns.fields["namespace_name"], ns))
            conds = []
            # every binding the specification puts in scope is there, with its URI, exactly once
            xml_chars = kernel.from_pystr("xml")
            xml_uri = kernel.from_pystr(XML_NS)
            spec = []
            for k, (p, u) in enumerate(flat):
                shadowed = Or(*[opt_eq(p, q) for q, _ in flat[:k]]) if k else False
                active = And(Not(shadowed), len(u) > 0)
                spec.append((p, u, active))
            spec.append((xml_chars, xml_uri, True))     # a one-character prefix cannot redeclare xml
            for p, u, active in spec:
                present = Or(*[And(opt_eq(gp, p), s_eq(gu, u)) for gp, gu, _ in got])
                conds.append(sym.Implies(active, present))
            # nothing else: every reported binding is an active specified one; prefixes are unique
            for gp, gu, _ in got:
                conds.append(Or(*[And(active, opt_eq(gp, p), s_eq(gu, u)) for p, u, active in spec]))
            for a in range(len(got)):
                for b in range(a + 1, len(got)):
                    conds.append(Not(opt_eq(got[a][0], got[b][0])))
            return And(*conds)
        verdict, info, nq = K.decide(I, paths, post, timeout_s)
        out["queries"] = nq + I.feas_queries
        out["fns"] = K.fn_table(I)
        ms, nq2 = tv_models(I, paths, TV_LIMIT)
        out["queries"] += nq2

        def scope_value(m):
            def f(v):
                items = v.fields["items"] if isinstance(v, Obj) else v
                return [[mopt(m, ns.fields["prefix"]), K.model_str(m, ns.fields["namespace_name"])] for ns in items]
            return f
        out["tv"] = [{"what": "scope", "levels": [[(K.model_str(m, p) if p is not None else None, K.model_str(m, u)) for p, u in row] for row in decl],
                      "pred": tv_outcome(m, q, scope_value(m))}
                     for m, q in ms]
        if verdict == "sat":
            mdl, p_ = info
            out["status"] = "sat"
            w = {"what": "scope", "levels": [[(K.model_str(mdl, p) if p is not None else None, K.model_str(mdl, u)) for p, u in row] for row in decl]}
            if p_["kind"] == "panic":
                w["panic"] = p_["msg"]
            else:
                r = p_["value"]
                try:
                    items = r.fields[0].fields["items"] if isinstance(r.fields[0], Obj) else r.fields[0]
                    w["in_scope"] = [((K.model_str(mdl, ns.fields["prefix"].fields[0]) if ns.fields["prefix"].variant == "Some" else None),
                                      K.model_str(mdl, ns.fields["namespace_name"])) for ns in items]
                except Exception:  # noqa
                    w["result"] = str(r)[:120]
            out["witness"] = w
        elif verdict == "unknown":
            out["status"] = "unknown"
            out["error"] = str(info)
    except (kernel.Unsupported, nomsem.Unsupported) as e:
        out["status"] = "unsupported"
        out["error"] = str(e)
    except Exception:
        import traceback
        out["status"] = "unsupported"
        out["error"] = "exception: " + traceback.format_exc()[-700:]
    out["wall"] = time.time() - t0
    return out


def work_bindings(job):
    """model::Context::add_ns / remove_ns / get_ns_uri: a history of <= 3 calls with symbolic prefixes and URIs, then a lookup;
    the binding of a prefix is the one of the LAST add_ns for it that no remove_ns followed"""
    ops, timeout_s = job           # ops: tuple of 'add' / 'remove'
    out = {"job": ("bindings", ops), "status": "holds", "paths": 0, "queries": 0, "error": None, "fns": {}}
    t0 = time.time()
    try:
        I = K.new_interp("debug")
        I.files_in_scope = (K.XFUNC, K.XMODEL, K.XEVAL)
        cons = []
        ps, us = [], []
        for i in range(len(ops)):
            p, c = K.sym_str("bp%d_" % i, 1)
            u, c2 = K.sym_str("bu%d_" % i, 1)
            cons += [c, c2]
            ps.append(p)
            us.append(u)
        q, c = K.sym_str("bq", 1)
        cons.append(c)
        I.assume(sym.to_z3(And(*cons)))

        def thunk(I):
            ctx = K.mk_obj("Context", K.XMODEL, size=SVec(), position=SVec(), namespaces=SVec())
            for i, op in enumerate(ops):
                p = Some(SStr(K.sym_str("bp%d_" % i, 1)[0]))
                if op == "add":
                    I.try_repo_method(ctx, "add_ns", [p, SStr(K.sym_str("bu%d_" % i, 1)[0])])
                else:
                    I.try_repo_method(ctx, "remove_ns", [p])
            return I.try_repo_method(ctx, "get_ns_uri", [Some(SStr(K.sym_str("bq", 1)[0]))])
        paths = I.explore(thunk)
        out["paths"] = len(paths)

        def post(p_):
            if p_["kind"] == "panic":
                return False
            r = p_["value"]
            cases = []
            later = True          # no later operation touches the queried prefix
            for i in range(len(ops) - 1, -1, -1):
                hit = s_eq(ps[i], q)
                if ops[i] == "add":
                    ok = isinstance(r, Enum) and r.variant == "Some" and s_eq(r.fields[0], us[i])
                else:
                    ok = isinstance(r, Enum) and r.variant == "None"
                cases.append(And(later, hit, ok))
                later = And(later, Not(hit))
            cases.append(And(later, isinstance(r, Enum) and r.variant == "None"))
            return Or(*cases)
        verdict, info, nq = K.decide(I, paths, post, timeout_s)
        out["queries"] = nq + I.feas_queries
        out["fns"] = K.fn_table(I)
        ms, nq2 = tv_models(I, paths, TV_LIMIT)
        out["queries"] += nq2
        out["tv"] = [{"what": "bindings", "ops": [(op, K.model_str(m, ps[i]), K.model_str(m, us[i])) for i, op in enumerate(ops)], "query": K.model_str(m, q),
                      "pred": tv_outcome(m, pth, lambda v: mopt(m, v))}
                     for m, pth in ms]
        if verdict == "sat":
            mdl, p_ = info
            out["status"] = "sat"
            out["witness"] = {"what": "bindings", "ops": [(op, K.model_str(mdl, ps[i]), K.model_str(mdl, us[i])) for i, op in enumerate(ops)],
                              "query": K.model_str(mdl, q), "result": str(p_.get("value"))[:60], "panic": p_.get("msg")}
        elif verdict == "unknown":
            out["status"] = "unknown"
            out["error"] = str(info)
    except (kernel.Unsupported, nomsem.Unsupported) as e:
        out["status"] = "unsupported"
        out["error"] = str(e)
    except Exception:
        import traceback
        out["status"] = "unsupported"
        out["error"] = "exception: " + traceback.format_exc()[-700:]
    out["wall"] = time.time() - t0
    return out


def work(job):
    return {"expanded": work_expanded, "name-test": work_nametest, "scope": work_scope, "bindings": work_bindings}[job[0]](job[1:])


# ---- replay --------------------------------------------------------------------------------------------------------

PROBES = {
    "expanded": [("<r xmlns='u' a='1'/>", "count(/*/@a)", "1"), ("<r xmlns='u' a='1'/>", "namespace-uri(/*/@a)", ""),
                 ("<r xmlns='u' a='1'/>", "namespace-uri(/*)", "u"), ("<r xmlns='u'><c a='1'/></r>", "count(/*/*/@a)", "1"),
                 ("<p:r xmlns:p='u' p:a='1' b='2'/>", "count(/*/@b)", "1"), ("<p:r xmlns:p='u' p:a='1' b='2'/>", "namespace-uri(/*/@*[2])", "")],
    "scope": [("<r xmlns='u'><c xmlns=''><d/></c></r>", "namespace-uri(/*/*/*)", ""), ("<r xmlns:p='u'><c xmlns:p='v'><p:d/></c></r>", "namespace-uri(/*/*/*)", "v"),
              ("<r xmlns:p='u'><c><p:d/></c></r>", "namespace-uri(/*/*/*)", "u"), ("<r xmlns:p='u'><c><p:d/></c></r>", "count(/*/*/*/namespace::*)", "2"),
              ("<r xmlns='u'><c xmlns=''><d/></c></r>", "count(/*/*/*/namespace::*)", "1"), ("<r xmlns='u'><c/></r>", "count(/*/*/namespace::*)", "2")],
    "name-test": [("<r><a/></r>", "count(/r/a)", "1"), ("<r xmlns:p='u'><p:a/></r>", "count(/r/a)", "0")],
    "bindings": [],
}


class Alias:
    """injective renaming of the model's one-character strings into printable names, per kind (l local part, p prefix, u URI);
    the kernel compares names character by character only, so a renaming that preserves equality preserves every path"""

    def __init__(self):
        self.m = {}

    def __call__(self, kind, x):
        if x is None or x == "":
            return x
        return self.m.setdefault((kind, x), "%s%d" % (kind, len([k for k in self.m if k[0] == kind])))

    def out(self, kind, x):
        """a string the code returned: one of the inputs (renamed) or a literal of the code (xmlns, xml, the XML namespace)"""
        if x is None:
            return None
        return self.m.get((kind, x), x)


def render_scope(levels, al=None):
    """witness levels [[(prefix|None, uri), ..], ..] (outermost first) -> (document, expected sorted in-scope list)"""
    al = al or Alias()
    doc_open, doc_close = "", ""
    scope = {}
    for i, row in enumerate(levels):
        attrs = ""
        for p, u in row:
            ua = al("u", u)
            if p is None:
                attrs += " xmlns='%s'" % ua
                scope["xmlns"] = ua
            else:
                pa = al("p", p)
                attrs += " xmlns:%s='%s'" % (pa, ua)
                scope[pa] = ua
        doc_open += "<e%d%s>" % (i, attrs)
        doc_close = "</e%d>" % i + doc_close
    want = sorted([[k, v] for k, v in scope.items() if v != ""] + [["xml", XML_NS]])
    return doc_open + doc_close, want


def real_norm(op, out):
    """outcome of a replay-driver case in the comparable form ['ok', value] | ['err'] | ['panic'] | None (document refused: not comparable)"""
    if "panic" in out or "died" in out:
        return ["panic"]
    if "doc_err" in out:
        return None
    if not out.get("ok"):
        return ["err"]
    if op == "in_scope":
        return ["ok", out.get("in_scope")]
    if op == "expanded_name":
        return ["ok", out.get("name")]
    if op == "ns_history":
        return ["ok", out.get("uri")]
    return ["ok", out.get("value")]


def tv_case(c):
    """a worker's concrete representative -> (replay case, prediction of the model, what the specification fixes, projection)
    all three outcomes in the form of real_norm; `proj` maps an outcome to the part the specification determines"""
    al = Alias()
    pred = c["pred"]
    ident = lambda o: o  # noqa
    if c["what"] == "scope":
        doc, want = render_scope(c["levels"], al)
        pv = None
        if pred["kind"] == "ok":
            pv = sorted([["xmlns" if p is None else al.out("p", p), al.out("u", u)] for p, u in pred["value"]])
        return {"op": "in_scope", "input": doc}, ([pred["kind"], pv] if pred["kind"] == "ok" else [pred["kind"]]), ["ok", want], ident
    if c["what"] == "expanded":
        L, P = al("l", c["local"]), al("p", c["prefix"])
        decls, bound = "", {}
        for bp, bu in c["bindings"]:
            if bp is None:
                decls += " xmlns='%s'" % al("u", bu)
                bound[None] = al("u", bu)
            else:
                decls += " xmlns:%s='%s'" % (al("p", bp), al("u", bu))
                bound[al("p", bp)] = al("u", bu)
        qn = (P + ":" + L) if P is not None else L
        if c["node"] == "element":
            doc = "<%s%s/>" % (qn, decls)
            uri = bound.get(P)
        else:
            doc = "<r%s %s='v'/>" % (decls, qn)
            uri = bound.get(P) if P is not None else None
        pv = None
        if pred["kind"] == "ok" and pred["value"] is not None:
            l, pf, u = pred["value"]
            pv = [al.out("l", l), al.out("p", pf), al.out("u", u)]
        proj = lambda o: [o[0], [o[1][0], o[1][2]]] if (o and o[0] == "ok" and o[1]) else o  # noqa: local part and URI; the prefix slot is not specified
        return ({"op": "expanded_name", "kind": c["node"], "input": doc}, ([pred["kind"], pv] if pred["kind"] == "ok" else [pred["kind"]]),
                ["ok", [L, uri]], proj)
    if c["what"] == "name-test":
        NL, TL = al("l", c["node_local"]), al("l", c["test_local"])
        NU, TP = al("u", c["node_uri"]), al("p", c["test_prefix"])
        ns = [[al("p", bp), al("u", bu)] for bp, bu in c["bindings"]]
        doc = ("<r xmlns:n='%s'><n:%s/></r>" % (NU, NL)) if NU is not None else ("<r><%s/></r>" % NL)
        expr = "count(/*/%s)" % ((TP + ":" + TL) if TP is not None else TL)
        if TP is None:
            want = ["ok", "1" if (NL == TL and NU is None) else "0"]
        else:
            b = dict((a, b_) for a, b_ in ns)
            want = ["ok", "1" if (NL == TL and NU is not None and NU == b[TP]) else "0"] if TP in b else ["err"]
        pv = ["ok", "1" if pred["value"] else "0"] if pred["kind"] == "ok" else [pred["kind"]]
        return {"op": "nametest", "doc": doc, "input": expr, "ns": ns}, pv, want, ident
    if c["what"] == "bindings":
        ops = [[op, al("p", p_), al("u", u)] for op, p_, u in c["ops"]]
        Q = al("p", c["query"])
        cur = None
        for op, p_, u in ops:
            if p_ == Q:
                cur = u if op == "add" else None
        pv = ["ok", al.out("u", pred["value"])] if pred["kind"] == "ok" else [pred["kind"]]
        return {"op": "ns_history", "ops": ops, "query": Q}, pv, ["ok", cur], ident
    raise KeyError(c["what"])


def judge(case, out):
    if case.get("expected_norm") is not None:
        got = real_norm(case["op"], out)
        if case["op"] == "expanded_name" and got and got[0] == "ok" and got[1]:
            got = ["ok", [got[1][0], got[1][2]]]
        return got != case["expected_norm"]
    if "panic" in out or "died" in out:
        return True
    if case.get("op") == "rebind":
        return out.get("rebound") != out.get("fresh")
    if case.get("op") == "in_scope":
        return not (out.get("ok") and out.get("in_scope") == case["expected_in_scope"])
    return not (out.get("ok") and out.get("value") == case["expected_value"])


def translator_validation(rp, rep, results, violated):
    """every concrete representative (one per feasible path of every shape) goes through the compiled code; the compiled outcome must
    be the one the S-kernel computed from the source.  A disagreement in which the compiled code also contradicts the specification
    on that input is a violation shown on the real code; any other disagreement means the encoding misrepresents the code: inconclusive."""
    n_ok, skipped, per = 0, 0, {}
    mism, samples = [], []
    for res in results:
        for c in res.get("tv", []):
            case, pred, want, proj = tv_case(c)
            rr = rp.run(case)
            got = real_norm(case["op"], rr)
            if got is None:
                skipped += 1
                continue
            if json.loads(json.dumps(got)) == json.loads(json.dumps(pred)):
                n_ok += 1
                if per.get(c["what"], 0) < 3:
                    samples.append({"case": case, "compiled_and_model": got})
                per[c["what"]] = per.get(c["what"], 0) + 1
                continue
            mism.append((c["what"], case, pred, got, want, proj(got) != want))
    rep.tv_cases += n_ok
    rep.extra["translator_validation"] = {"agreeing": n_ok, "per_obligation": per, "documents_refused_by_the_parser": skipped, "disagreeing": len(mism), "samples": samples,
                                          "how": "one solver model per feasible path of every shape, renamed to printable names, run through /verif/replay (ops in_scope, expanded_name, nametest, ns_history) and compared with the outcome the S-kernel computed on that path"}
    seen = set()
    for what, case, pred, got, want, breaks_spec in mism:
        oid = "C10.s.%s" % what
        if breaks_spec and oid not in violated and oid not in seen:
            seen.add(oid)
            vc = dict(case, property="C10", expected_norm=want)
            rep.violation(oid, vc, "on %s the compiled code answers %s, Namespaces in XML / XPath 1.0 give %s (the source-level model computed %s: found by translator validation)" % (
                json.dumps(case, ensure_ascii=True)[:200], got, want, pred))
            for o in rep.obligations:
                if o["id"] == oid:
                    o["status"] = "violated"
        elif not breaks_spec:
            rep.inconclusive.append("translator validation %s: the S-kernel computed %s, the compiled code %s on %s" % (oid, pred, got, json.dumps(case, ensure_ascii=True)[:200]))
    return n_ok


def main():
    args = common.args_for("C10")
    rep = common.Report(args)
    if args.replay:
        return common.replay_generic(args, judge)
    try:
        rp = replay.Replay()
    except replay.ReplayError as e:
        rep.inconclusive.append(str(e))
        return rep.finish()
    thorough = args.tier != "quick"
    t = 120 if not thorough else 600
    jobs = []
    bind_sets = [()] + [(a,) for a in (None, 1)] + [(None, 1), (1, 1)]
    for kind in ("element", "attribute"):
        for hp in (False, True):
            for b in bind_sets:
                jobs.append(("expanded", kind, hp, b, t))
    for tp in (False, True):
        for nu in (False, True):
            for nb in range(0, 3):
                jobs.append(("name-test", tp, nu, (1,) * nb, t))
    for n in range(1, 4):
        for ops in itertools.product(("add", "remove"), repeat=n):
            jobs.append(("bindings", ops, t))
    decl_shapes = [(None, 0), (None, 1), (1, 0), (1, 1)]
    per_level = [()] + [(d,) for d in decl_shapes] + ([(a, b) for a in decl_shapes for b in decl_shapes if a[0] != b[0] or a[0] == 1] if thorough else [((None, 1), (1, 1)), ((1, 1), (1, 1))])
    depth = 3 if thorough else 2
    for d in range(1, depth + 1):
        pools = [per_level if (thorough and d <= 2) or not thorough else [()] + [(x,) for x in decl_shapes] + [((None, 1), (1, 1)), ((1, 1), (1, 1)), ((None, 0), (1, 1))]] * d
        for lv in itertools.product(*pools):
            jobs.append(("scope", lv, t))
    rep.bounds = {"scope": "chains of 1..%d elements below the document, 0-2 declarations per element, prefix none or one symbolic character, URI empty or one symbolic character" % depth,
                  "expanded": "element / attribute, prefixed or not, in-scope sets of 0-2 bindings (default and/or prefixed) with symbolic one-character prefixes and URIs",
                  "name-test": "QName test prefixed or not, node in a namespace or not, 0-2 caller bindings, all names one symbolic character",
                  "outside": "names longer than one character (comparisons are per character), the literal prefixes xml / xmlns as declared prefixes, a default binding in the caller's context, namespace nodes as XPath results, prefix renaming over whole documents"}
    rep.assumptions += ["XmlAttribute::normalized_value (C11) is a stub returning the declared URI; Context::node(id) returns the registered item; owner_element and the dom-level in_scope_namespace are stubs in the expanded-name obligations (the scope computation is decided separately)"]
    with mp.Pool(min(args.jobs, len(jobs))) as pool:
        results = pool.map(work, jobs, chunksize=8)
    groups = {}
    for res in results:
        what = res["job"][0]
        rep.queries += res["queries"]
        rep.functions.update(res.get("fns", {}))
        g = groups.setdefault(what, {"n": 0, "holds": 0, "bad": [], "paths": 0})
        g["n"] += 1
        g["paths"] += res["paths"]
        if res["status"] == "holds":
            g["holds"] += 1
        elif res["status"] == "sat":
            g["bad"].append(res)
        else:
            rep.inconclusive.append("C10.s.%s %s: %s" % (what, res["job"][1:], str(res["error"])[:300]))
    for what, g in sorted(groups.items()):
        oid = "C10.s.%s" % what
        status = "holds"
        if g["bad"]:
            hit = None
            for doc, expr, want in PROBES[what]:
                rr = rp.run({"op": "query", "doc": doc, "input": expr})
                rep.replays += 1
                if "panic" in rr or "died" in rr or not (rr.get("ok") and rr.get("value") == want):
                    hit = (doc, expr, want, rr)
                    break
            if not hit and what == "bindings":
                rr = rp.run({"op": "rebind", "input": "<r xmlns:a='u1' xmlns:b='u2'><a:i/><b:i/><b:i/></r>"})
                rep.replays += 1
                if "panic" in rr or "died" in rr or rr.get("rebound") != rr.get("fresh"):
                    status = "violated"
                    rep.violation(oid, {"op": "rebind", "input": "<r xmlns:a='u1' xmlns:b='u2'><a:i/><b:i/><b:i/></r>", "property": "C10", "expected_value": "same"},
                                  "a context in which p was bound to u1 and then to u2 answers count(//p:i) = %s, a fresh context with p bound to u2 answers %s" % (rr.get("rebound"), rr.get("fresh")))
                else:
                    status = "inconclusive"
                    rep.inconclusive.append("%s: %d model witnesses (first %s) do not reproduce" % (oid, len(g["bad"]), g["bad"][0]["witness"]))
            elif not hit and what == "scope":
                # the model's own witnesses, rendered as documents (smallest first)
                for res in sorted(g["bad"], key=lambda r: sum(len(x) for x in r["job"][1]))[:6]:
                    w = res["witness"]
                    if "levels" not in w:
                        continue
                    doc, want = render_scope(w["levels"])
                    rr = rp.run({"op": "in_scope", "input": doc})
                    rep.replays += 1
                    if "doc_err" in rr:
                        continue
                    if "panic" in rr or "died" in rr or not (rr.get("ok") and rr.get("in_scope") == want):
                        status = "violated"
                        rep.violation(oid, {"op": "in_scope", "input": doc, "property": "C10", "expected_in_scope": want},
                                      "the in-scope namespaces of the innermost element of %s are %s, Namespaces in XML gives %s" % (doc, rr.get("in_scope", rr), want))
                        break
                else:
                    status = "inconclusive"
                    rep.inconclusive.append("%s: %d model witnesses (first %s) reproduce neither on the probe queries nor as documents" % (oid, len(g["bad"]), g["bad"][0]["witness"]))
            elif hit:
                status = "violated"
                doc, expr, want, rr = hit
                rep.violation(oid, {"op": "query", "doc": doc, "input": expr, "property": "C10", "expected_value": want},
                              "%s on %s gives %s, Namespaces in XML / XPath 1.0 give %r (model: %d shapes differ, first %s)" % (
                                  expr, doc, rr.get("value", rr), want, len(g["bad"]), g["bad"][0]["witness"]))
            else:
                status = "inconclusive"
                rep.inconclusive.append("%s: %d model witnesses (first %s) do not show on the probe queries" % (oid, len(g["bad"]), g["bad"][0]["witness"]))
        rep.obligation(oid, status, reach="sat", shapes=g["n"], holding=g["holds"], with_witness=len(g["bad"]), paths=g["paths"],
                       first_witness=g["bad"][0]["witness"] if g["bad"] else None)
    try:
        translator_validation(rp, rep, results, {v[0] for v in rep.violations})
    except Exception:
        import traceback
        rep.inconclusive.append("translator validation failed: " + traceback.format_exc()[-500:])
    rp.close()
    return rep.finish()


if __name__ == "__main__":
    sys.exit(main())
