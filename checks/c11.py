"""C11 (algorithm part): attribute-value normalisation, XML 1.0 section 3.3.3.

info::XmlAttribute::normalized_value, normalize_ws and attr_value_from_name are executed symbolically by the S-kernel
on an attribute whose value is a list of <= 3 pieces (text of <= 2 symbolic characters / character reference to a
symbolic character / reference to one of <= 2 entities whose replacement text is again <= 2 pieces), for the declared
types CDATA, a tokenised type, and undeclared.  The item graph is replaced by stubs: a piece answers as_text /
as_char_reference / as_unexpanded, Context::entity looks the name up in the symbolic entity table, declaration_type
returns the chosen type.  Oracle: section 3.3.3 as a spec interpreter in the same path exploration.
"""
import sys
import time
import json
import itertools
import multiprocessing as mp
import z3

import common
from common import show
import kharness as K
from sx import kernel, kstd, sym, replay, nomsem
from sx.kernel import Ch, SStr, SVec, Enum, Obj, Some, NONE, Ok, Err
from sx.sym import And, Or, Not

WS = [(0x20, 0x20), (0x9, 0x9), (0xD, 0xD), (0xA, 0xA)]


def is_ws(c):
    return sym.cin_ranges(c, WS)


def mk_piece(I, kind, tag, table):
    """-> (XmlAttributeValue enum, spec description)"""
    if kind[0] == "T" and kind[1:].isdigit():
        s, c = K.sym_str(tag, int(kind[1:]))
        # literal text of an attribute value: XML characters other than the delimiters (so that every witness is a document)
        import xmlref
        c = sym.And(c, *[sym.And(xmlref.is_char(ch.c), sym.Not(sym.c_in_str(ch.c, "<&\"%"))) for ch in s])
        o = K.mk_obj("TextPiece", None, text=s)
        return K.mk_enum("XmlAttributeValue", K.INFO, "Text", o), ("text", s), c
    if kind == "C":
        s, c = K.sym_str(tag, 1)
        o = K.mk_obj("CharPiece", None, code=s)
        return K.mk_enum("XmlAttributeValue", K.INFO, "Char", o), ("char", s), c
    if kind.startswith("E"):
        name = kernel.from_pystr("e%s" % kind[1])
        o = K.mk_obj("EntPiece", None, name=name)
        return K.mk_enum("XmlAttributeValue", K.INFO, "Entity", o), ("ent", kind[1]), True
    raise ValueError(kind)


def mk_entity_value(kind, tag):
    """piece of an entity's replacement text: (XmlEntityValue enum, spec, constraint)"""
    if kind in ("T1", "T2"):
        s, c = K.sym_str(tag, int(kind[1]))
        return K.mk_enum("XmlEntityValue", K.INFO, "Text", s), ("text", s), c
    if kind == "C":
        s, c = K.sym_str(tag, 1)
        # stored as the digits of the reference; use a hexadecimal rendering of a symbolic char is not possible with
        # concrete-length strings, so character references inside entity values are concrete representatives
        raise ValueError("symbolic char refs in entity values are not generated")
    if kind in ("C9", "CA", "C41"):
        digits = {"C9": "9", "CA": "A", "C41": "41"}[kind]
        return K.mk_enum("XmlEntityValue", K.INFO, "Character", kernel.from_pystr(digits), 16), ("char", SStr([Ch(int(digits, 16))])), True
    if kind.startswith("E"):
        return K.mk_enum("XmlEntityValue", K.INFO, "Entity", kernel.from_pystr("e%s" % kind[1])), ("ent", kind[1]), True
    raise ValueError(kind)


def spec_expand(I, spec_pieces, table, depth=0):
    """section 3.3.3 steps 1-3 on a list of pieces"""
    out = SStr()
    for kind, v in spec_pieces:
        if kind == "text":
            for ch in v:
                out.append(Ch(0x20) if I.truth(is_ws(ch.c)) else ch)
        elif kind == "char":
            out.extend(v)
        else:
            if depth > 4:
                raise kernel.Unsupported("entity recursion in the spec")
            out.extend(spec_expand(I, table[v], table, depth + 1))
    return out


def spec_collapse(I, s):
    words, cur = [], SStr()
    for ch in s:
        if I.truth(sym.ceq(ch.c, 0x20)):
            if cur:
                words.append(cur)
            cur = SStr()
        else:
            cur.append(ch)
    if cur:
        words.append(cur)
    out = SStr()
    for k, w in enumerate(words):
        if k:
            out.append(Ch(0x20))
        out.extend(w)
    return out


def is_cyclic(ents):
    graph = {k: [p[1] for p in v if p.startswith("E")] for k, v in ents.items()}
    state = {}

    def dfs(n):
        if state.get(n) == 1:
            return True
        if state.get(n) == 2 or n not in graph:
            return False
        state[n] = 1
        r = any(dfs(m) for m in graph[n])
        state[n] = 2
        return r
    return any(dfs(k) for k in list(graph))


def concrete_doc(pieces, ents, decl):
    """a document realising the shape with 'x' for every text character (used when the model itself recurses without bound)"""
    def lit(kinds):
        out = []
        for kind in kinds:
            if kind[0] == "T":
                out.append("x" * int(kind[1]))
            elif kind in ("C9", "CA", "C41"):
                out.append("&#x%s;" % kind[1:])
            elif kind == "C":
                out.append("&#x41;")
            else:
                out.append("&e%s;" % kind[1])
        return "".join(out)
    dtd = "".join("<!ENTITY e%s \"%s\">" % (k, lit(v)) for k, v in ents.items())
    if decl != "none":
        dtd += "<!ATTLIST r a %s #IMPLIED>" % ("CDATA" if decl == "cdata" else "NMTOKENS")
    return "<!DOCTYPE r [%s]><r a=\"%s\"/>" % (dtd, lit(pieces))


def run_case(job):
    pieces, ents, decl, timeout_s = job
    out = {"job": (pieces, ents, decl), "status": "holds", "paths": 0, "queries": 0, "error": None}
    t0 = time.time()
    try:
        cyclic = is_cyclic(ents)
        I = K.new_interp("debug", max_paths=20000)
        cons = []
        probes = []

        def build():
            table_impl, table_spec = {}, {}
            for en, ev in ents.items():
                vals, spec = SVec(), []
                for k, kind in enumerate(ev):
                    v, sp, c = mk_entity_value(kind, "e%s_%d_" % (en, k))
                    vals.append(v)
                    spec.append(sp)
                    cons.append(c)
                table_impl[en] = vals
                table_spec[en] = spec
            values, spec = SVec(), []
            for k, kind in enumerate(pieces):
                v, sp, c = mk_piece(I, kind, "p%d_" % k, table_impl)
                values.append(v)
                spec.append(sp)
                cons.append(c)
            return values, spec, table_impl, table_spec
        values, spec, ti, ts = build()
        probes = (values, spec)
        I.assume(sym.to_z3(And(*cons)))

        def entity_lookup(I, ctx, name):
            nm = kernel.concrete_str(name)
            key = nm[1:] if nm else None
            tab = ctx.fields["table"]
            if key in tab:
                return Ok(K.mk_obj("EntityStub", None, values=tab[key]))
            return Err(K.mk_enum("Error", K.INFO, "NotFoundReference", name))
        I.mstubs = {
            ("TextPiece", "as_text"): lambda I, r: Some(r),
            ("CharPiece", "as_char_reference"): lambda I, r: Some(r),
            ("CharPiece", "character_code"): lambda I, r: r.fields["code"],
            ("EntPiece", "as_unexpanded"): lambda I, r: Some(r),
            ("EntPiece", "name"): lambda I, r: r.fields["name"],
            ("Context", "entity"): entity_lookup,
            ("EntityStub", "values"): lambda I, r: Some(r.fields["values"]),
            ("XmlAttribute", "declaration_type"): lambda I, r: r.fields["__decl__"],
            ("XmlAttribute", "context"): lambda I, r: r.fields["context"],
        }
        fns = [fn for fn in I.dump.methods.get((K.INFO, "XmlAttribute", "normalized_value"), [])]
        if len(fns) != 1:
            raise kernel.Unsupported("XmlAttribute::normalized_value not found")

        def thunk(I):
            values, spec, table_impl, table_spec = build()
            ctx = K.mk_obj("Context", None, table=table_impl)
            d = NONE if decl == "none" else Some(K.mk_enum("XmlDeclarationAttType", K.INFO, "CData" if decl == "cdata" else "NmTokens"))
            attr = K.mk_obj("XmlAttribute", K.INFO, values=values, context=ctx, __decl__=d)
            r = I.call_fn(K.INFO, fns[0], [attr])
            if cyclic:
                return (r, "must-fail")
            e = spec_expand(I, spec, table_spec)
            if decl == "tokenized":
                e = spec_collapse(I, e)
            return (r, e)
        try:
            paths = I.explore(thunk)
        except RecursionError:
            out["status"] = "recursion"
            out["wall"] = time.time() - t0
            return out
        out["paths"] = len(paths)

        def post(p):
            if p["kind"] == "panic":
                return False
            r, e = p["value"]
            if e == "must-fail":
                return isinstance(r, Enum) and r.variant == "Err"
            if not (isinstance(r, Enum) and r.variant == "Ok"):
                return False
            return kstd.s_eq(I, r.fields[0], e)
        verdict, info_, nq = K.decide(I, paths, post, timeout_s)
        out["queries"] = nq + I.feas_queries
        out["fns"] = K.fn_table(I)
        if verdict == "sat":
            mdl, p = info_
            out["status"] = "sat"
            out["witness"] = witness_doc(mdl, pieces, ents, decl, probes)
            if p["kind"] == "panic":
                out["witness"]["model"] = ["panic", p["msg"]]
            else:
                r, e = p["value"]
                out["witness"]["model"] = ["ok", K.model_str(mdl, r.fields[0])] if r.variant == "Ok" else ["err", repr(r)[:80]]
                out["witness"]["spec"] = K.model_str(mdl, e)
        elif verdict == "unknown":
            out["status"] = "unknown"
            out["error"] = info_
    except (kernel.Unsupported, nomsem.Unsupported) as e:
        out["status"] = "unsupported"
        out["error"] = str(e)
    except Exception:
        import traceback
        out["status"] = "unsupported"
        out["error"] = "exception: " + traceback.format_exc()[-700:]
    out["wall"] = time.time() - t0
    return out


def translator_validation(rp, seed, n):
    """concrete attribute values: the interpreter (std models + stubs over the entity table) must agree with Attr::value"""
    import random
    rng = random.Random(seed)
    alpha = [" ", "\t", "\n", "a", "b", "\u00e9", "x", "  ", "\u00a0"]
    done = 0
    fns = None
    for _ in range(n):
        nents = rng.randrange(0, 3)
        ents = {}
        for e in range(1, nents + 1):
            body = []
            for _k in range(rng.randrange(0, 3)):
                c = rng.randrange(3)
                if c == 0:
                    body.append(("text", "".join(rng.choice(alpha) for _ in range(rng.randrange(1, 3)))))
                elif c == 1:
                    body.append(("char", rng.choice(["9", "A", "41", "20"])))
                elif e < nents:
                    body.append(("ent", str(e + 1)))
            ents[str(e)] = body
        pieces = []
        for _k in range(rng.randrange(0, 4)):
            c = rng.randrange(3)
            if c == 0:
                pieces.append(("text", "".join(rng.choice(alpha) for _ in range(rng.randrange(1, 3)))))
            elif c == 1:
                pieces.append(("char", rng.choice(["9", "A", "41", "20", "3042"])))
            elif nents:
                pieces.append(("ent", str(rng.randrange(1, nents + 1))))
        decl = rng.choice(["none", "cdata", "tokenized"])

        def lit(parts):
            return "".join(t if k == "text" else "&#x%s;" % t if k == "char" else "&e%s;" % t for k, t in parts)
        dtd = "".join("<!ENTITY e%s \"%s\">" % (k, lit(v)) for k, v in ents.items())
        if decl != "none":
            dtd += "<!ATTLIST r a %s #IMPLIED>" % ("CDATA" if decl == "cdata" else "NMTOKENS")
        doc = "<!DOCTYPE r [%s]><r a=\"%s\"/>" % (dtd, lit(pieces))
        I = K.new_interp("debug")
        table = {}
        for k, v in ents.items():
            vals = SVec()
            for kind, t in v:
                if kind == "text":
                    vals.append(K.mk_enum("XmlEntityValue", K.INFO, "Text", kernel.from_pystr(t)))
                elif kind == "char":
                    vals.append(K.mk_enum("XmlEntityValue", K.INFO, "Character", kernel.from_pystr(t), 16))
                else:
                    vals.append(K.mk_enum("XmlEntityValue", K.INFO, "Entity", kernel.from_pystr("e" + t)))
            table[k] = vals

        def entity_lookup(I, ctx, name):
            nm = kernel.concrete_str(name)
            if nm and nm[1:] in table:
                return Ok(K.mk_obj("EntityStub", None, values=table[nm[1:]]))
            return Err(K.mk_enum("Error", K.INFO, "NotFoundReference", name))
        I.mstubs = {("TextPiece", "as_text"): lambda I, r: Some(r), ("CharPiece", "as_char_reference"): lambda I, r: Some(r),
                    ("CharPiece", "character_code"): lambda I, r: r.fields["code"], ("EntPiece", "as_unexpanded"): lambda I, r: Some(r),
                    ("EntPiece", "name"): lambda I, r: r.fields["name"], ("Context", "entity"): entity_lookup,
                    ("EntityStub", "values"): lambda I, r: Some(r.fields["values"]),
                    ("XmlAttribute", "declaration_type"): lambda I, r: r.fields["__decl__"], ("XmlAttribute", "context"): lambda I, r: r.fields["context"]}
        fn = I.dump.methods.get((K.INFO, "XmlAttribute", "normalized_value"))[0]

        def thunk(I):
            values = SVec()
            for kind, t in pieces:
                if kind == "text":
                    values.append(K.mk_enum("XmlAttributeValue", K.INFO, "Text", K.mk_obj("TextPiece", None, text=kernel.from_pystr(t))))
                elif kind == "char":
                    values.append(K.mk_enum("XmlAttributeValue", K.INFO, "Char", K.mk_obj("CharPiece", None, code=kernel.from_pystr(chr(int(t, 16))))))
                else:
                    values.append(K.mk_enum("XmlAttributeValue", K.INFO, "Entity", K.mk_obj("EntPiece", None, name=kernel.from_pystr("e" + t))))
            d = NONE if decl == "none" else Some(K.mk_enum("XmlDeclarationAttType", K.INFO, "CData" if decl == "cdata" else "NmTokens"))
            attr = K.mk_obj("XmlAttribute", K.INFO, values=values, context=K.mk_obj("Context", None, table=table), __decl__=d)
            return I.call_fn(K.INFO, fn, [attr])
        paths = I.explore(thunk)
        if len(paths) != 1 or paths[0]["kind"] != "ret":
            raise common.Inconclusive("concrete normalisation run: %s" % str(paths[:1])[:200])
        r = paths[0]["value"]
        pred = kernel.concrete_str(r.fields[0]) if r.variant == "Ok" else None
        rr = rp.run({"op": "attr_value", "input": doc})
        if "doc_err" in rr:
            continue
        real = rr.get("value") if rr.get("ok") else None
        if pred != real:
            raise common.Inconclusive("model mismatch on %s: interpreter %r, real %s" % (doc, pred, rr))
        done += 1
    return done


def esc_text(s, quote):
    o = []
    for ch in s:
        if ch in "<&" or ch == quote or ch in "\t\r\n" and False:
            o.append("&#x%X;" % ord(ch))
        else:
            o.append(ch)
    return "".join(o)


def witness_doc(mdl, pieces, ents, decl, probes):
    """build the XML document that realises the model, for replay through Attr::value"""
    values, spec = probes
    # entity declarations
    decls = []
    for en, ev in ents.items():
        body = []
        for k, kind in enumerate(ev):
            if kind in ("T1", "T2"):
                s, _ = K.sym_str("e%s_%d_" % (en, k), int(kind[1]))
                body.append(("text", K.model_str(mdl, s)))
            elif kind in ("C9", "CA", "C41"):
                body.append(("raw", "&#x%s;" % {"C9": "9", "CA": "A", "C41": "41"}[kind]))
            else:
                body.append(("raw", "&e%s;" % kind[1]))
        decls.append((en, body))
    val = []
    for (kind, v) in spec:
        if kind == "text":
            val.append(("text", K.model_str(mdl, v)))
        elif kind == "char":
            val.append(("raw", "&#x%X;" % ord(K.model_str(mdl, v))))
        else:
            val.append(("raw", "&e%s;" % v))
    return {"decls": decls, "value": val, "decl": decl}


def render_doc(w):
    def lit(parts, forbidden):
        out = []
        for k, t in parts:
            if k == "raw":
                out.append(t)
            else:
                if any(c in forbidden for c in t):
                    return None
                out.append(t)
        return "".join(out)
    dtd = []
    for en, body in w["decls"]:
        b = lit(body, "%&\"")
        if b is None:
            return None
        dtd.append("<!ENTITY e%s \"%s\">" % (en, b))
    if w["decl"] != "none":
        dtd.append("<!ATTLIST r a %s #IMPLIED>" % ("CDATA" if w["decl"] == "cdata" else "NMTOKENS"))
    v = lit(w["value"], "<&\"")
    if v is None:
        return None
    return "<!DOCTYPE r [%s]><r a=\"%s\"/>" % ("".join(dtd), v)


def cases(tier):
    P = ["T1", "T2", "C", "E1"]
    out = []
    ent_sets = [{}, {"1": ["T2"]}, {"1": ["T1", "C9"]}, {"1": ["E2", "T1"], "2": ["T1"]}, {"1": ["CA", "T1"]},
                {"1": ["E2", "E2"], "2": ["T1"]},                       # the same entity reached twice, no cycle
                {"1": ["E2", "E3"], "2": ["E3"], "3": ["T1"]}]          # a diamond
    if tier == "thorough":
        ent_sets += [{"1": ["T1", "E2"], "2": ["T2"]}, {"1": ["C41", "E2"], "2": ["C9", "T1"]}]
    maxp = 2 if tier == "quick" else 3
    for n in range(0, maxp + 1):
        for combo in itertools.product(P, repeat=n):
            uses_e = "E1" in combo
            for ents in ent_sets:
                if uses_e != bool(ents):
                    continue
                # symbolic characters in the value and in the entity texts it can reach: every one doubles the paths twice
                ent_chars = sum(int(k[1]) for v in ents.values() for k in v if k[0] == "T")
                if sum(int(k[1]) if k[0] == "T" else 1 for k in combo) + ent_chars > (4 if tier == "quick" else 6):
                    continue
                for decl in ("none", "cdata", "tokenized"):
                    out.append((combo, ents, decl))
    # one longer text run for the tokenized types: trimming plus collapsing of a run of three or more spaces needs five characters
    out.append((("T5",), {}, "tokenized"))
    # cyclic entity tables: expansion must be refused, not recurse without bound
    for cyc in ({"1": ["E2"], "2": ["E1"]}, {"1": ["E1"]}, {"1": ["E2", "E1"], "2": ["T1"]}, {"1": ["T1", "E2"], "2": ["E3", "E1"], "3": ["T1"]},
                {"1": ["E2", "E3"], "2": ["T1"], "3": ["E2", "E1"]},
                # cycles that do not pass through the entity the attribute refers to (a "lasso": 1 -> 2 -> 3 -> 2, 1 -> 2 -> 2)
                {"1": ["E2"], "2": ["T1", "E3"], "3": ["E2"]}, {"1": ["T1", "E2"], "2": ["E2"]}):
        out.append((("E1",), cyc, "none"))
    return out


def main():
    args = common.args_for("C11")
    rep = common.Report(args)
    try:
        rp = replay.Replay()
    except replay.ReplayError as e:
        rep.inconclusive.append(str(e))
        return rep.finish()
    if args.replay:
        case = json.load(open(args.replay))
        rr = rp.run({"op": "attr_value", "input": case["doc"]})
        print("replay %s -> %s" % (show(case["doc"]), rr))
        bad = "panic" in rr or "died" in rr or (rr.get("ok") and rr.get("value") != case.get("spec")) or (not rr.get("ok") and "doc_err" not in rr and case.get("spec") is not None)
        if bad:
            print("VIOLATION property=C11 replay=%s" % args.replay)
            return 1
        print("does not reproduce on the current tree")
        return 0
    timeout_s = 120 if args.tier == "quick" else 900
    rep.bounds = {"pieces": "<= %d per attribute value (text of 1-2 symbolic characters, character reference to any character, entity reference)" % (2 if args.tier == "quick" else 3),
                  "entities": "<= 2, replacement text <= 2 pieces, one level of nesting, plus one cyclic table",
                  "declared_types": ["undeclared", "CDATA", "tokenized (NMTOKENS as representative)"],
                  "outside": "finding the ATTLIST declaration and materialising defaults (item graph); line-end normalisation of the input (section 2.11); ATTLIST parsing (covered by C01's dtd-attlist template)"}
    rep.assumptions += ["pieces, Context::entity and declaration_type are stubs over a symbolic table; a character reference inside an entity value is appended unchanged (either reading accepted by the property)",
                        "std models of engine/sx/kstd.py (str::replace, split(' '), filter, join)"]
    known_open, _ = common.known_findings("C11")
    try:
        rep.tv_cases = translator_validation(rp, args.seed, 80 if args.tier == "quick" else 400)
        rep.extra["translator_validation"] = "%d concrete documents: S-kernel + stubs == Attr::value" % rep.tv_cases
    except (common.Inconclusive, kernel.Unsupported) as e:
        rep.inconclusive.append(str(e))
        return rep.finish()
    jobs = [(p, e, d, timeout_s) for p, e, d in cases(args.tier)]
    with mp.Pool(args.jobs) as pool:
        results = pool.map(run_case, jobs, chunksize=4)
    reported = set()
    for res in results:
        pieces, ents, decl = res["job"]
        oid = "C11.s.normalized[%s|%s|%s]" % ("+".join(pieces), ";".join("%s=%s" % (k, "+".join(v)) for k, v in ents.items()), decl)
        rep.queries += res["queries"]
        rep.extra["paths"] = rep.extra.get("paths", 0) + res["paths"]
        rep.functions.update(res.get("fns", {}))
        if res["status"] == "recursion":
            doc = concrete_doc(pieces, ents, decl)
            rr = rp.run({"op": "attr_value", "input": doc})
            rep.replays += 1
            if "died" in rr or "panic" in rr:
                kf = [k for k in known_open if k.get("class") == "entity-cycle"]
                if kf:
                    rep.obligation(oid, "known-finding")
                    rep.known_finding(kf[0], "%s class=entity-cycle witness=%s -> %s" % (kf[0].get("what", ""), doc, rr))
                else:
                    rep.obligation(oid, "violated")
                    rep.violation(oid, {"op": "attr_value", "doc": doc, "input": doc, "property": "C11"}, "cyclic entity definitions make Attr::value recurse without bound: %s" % rr)
            else:
                rep.obligation(oid, "inconclusive")
                rep.inconclusive.append("%s: the model recurses without bound but the real code answers %s" % (oid, rr))
            continue
        if res["status"] in ("unsupported", "unknown"):
            rep.obligation(oid, "inconclusive", error=res["error"])
            rep.inconclusive.append("%s: %s" % (oid, str(res["error"])[:300]))
            continue
        if res["status"] == "holds":
            rep.obligation(oid, "holds", reach="sat" if res["paths"] else "unsat", paths=res["paths"], wall_s=round(res["wall"], 2))
            continue
        w = res["witness"]
        doc = render_doc(w)
        if doc is None:
            rep.obligation(oid, "inconclusive", witness=w)
            rep.inconclusive.append("%s: witness not expressible as a document: %s" % (oid, w))
            continue
        rr = rp.run({"op": "attr_value", "input": doc})
        rep.replays += 1
        bad = "panic" in rr or "died" in rr or (rr.get("ok") and rr.get("value") != w.get("spec")) \
            or (not rr.get("ok") and "doc_err" not in rr and w.get("spec") is not None and w.get("model", [""])[0] == "err")
        if not bad:
            rep.obligation(oid, "inconclusive", witness=w)
            rep.inconclusive.append("%s: model does not reproduce: %s -> %s (spec %r)" % (oid, show(doc), rr, w.get("spec")))
            continue
        rep.obligation(oid, "violated", witness=w)
        key = decl
        if key not in reported:
            reported.add(key)
            rep.violation(oid, {"op": "attr_value", "doc": doc, "input": doc, "spec": w.get("spec"), "property": "C11"},
                          "attribute a of %s has value %r, XML 1.0 3.3.3 prescribes %r" % (show(doc), rr.get("value", rr), w.get("spec")))
        else:
            rep.violations.append((oid, None, doc))
    rep.samples += [{"obligation": str(r["job"]), "paths": r["paths"]} for r in results[:6]]
    rp.close()
    return rep.finish()


if __name__ == "__main__":
    sys.exit(main())
