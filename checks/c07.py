"""C07 (node-set kernel): union, path collection and positional filters keep node-sets duplicate-free and in
document order.

xpath/src/eval/mod.rs eval_union_expr, eval_filtered_loc_expr and eval_filter_expr are executed symbolically by the
S-kernel from source.  Nodes are opaque items whose order key (dom XmlNode::order) is a SYMBOLIC 64-bit value, pairwise
distinct and non-zero (C14 decides that keys have this form and follow document order; C06.s.siblings that every node
kind reports its key).  The sub-evaluators below them (eval_path_expr, eval_loc_expr, eval_primary_expr,
eval_predicate) are stubs that return ANY node list of the stated shape.

  union      operands are k <= 3 node lists over a pool of M = 3 nodes, each list in document order, duplicates allowed
             (what the path evaluator delivers, see `paths`); the result holds exactly the nodes of the operands, each
             once, in strictly increasing key order - hence A|B = B|A, A|A = A and count(A|B) <= count(A)+count(B).
  paths      eval_filtered_loc_expr collects the step results of several context nodes (ANY lists, any order,
             duplicates allowed): the result is in non-decreasing key order and holds the same nodes.
  axis       a step with [position() = t] (any 64-bit t) over 2-3 candidates in any order: along a forward axis the t-th in
             document order is kept, along a reverse axis the t-th in reverse document order.
  filter     (E)[n]: eval_filter_expr numbers the nodes of the primary in the order it delivers them (document order by
             `union`), so a positional predicate selects the n-th node in document order.
"""
import sys
import time
import json
import itertools
import multiprocessing as mp
import z3

import common
from common import show
import kharness as K
from sx import kernel, kstd, sym, replay, nomsem
from sx.kernel import Enum, Obj, Ok, Err, Some, NONE, SStr, SVec
from sx.sym import And, Or, Not

M = 3


def pool():
    keys = [z3.BitVec("key%d" % i, 64) for i in range(M)]
    nodes = [K.mk_obj("NodeStub", None, key=keys[i], tag=i) for i in range(M)]
    cons = [z3.Distinct(*keys)] + [k != 0 for k in keys]
    return nodes, keys, cons


def new_interp():
    I = K.new_interp("debug", max_paths=20000)
    I.files_in_scope = (K.XFUNC, K.XMODEL, K.XEVAL)
    I.model_sort = True
    I.mstubs = {("NodeStub", "order"): lambda I, r: r.fields["key"]}
    return I


def tags(lst):
    return [n.fields["tag"] for n in lst]


def sorted_cond(keys, lst, strict):
    ks = [keys[t] for t in tags(lst)]
    return And(*[(z3.ULT(a, b) if strict else z3.ULE(a, b)) for a, b in zip(ks, ks[1:])])


def work(job):
    what, shape, timeout_s = job
    out = {"job": (what, shape), "status": "holds", "paths": 0, "queries": 0, "error": None, "fns": {}}
    t0 = time.time()
    try:
        I = new_interp()
        nodes0, keys, cons = pool()
        if what == "union":
            # operand lists are in document order (a node may occur several times, next to itself)
            for lst in shape:
                for a, b in zip(lst, lst[1:]):
                    if a != b:
                        cons.append(z3.ULT(keys[a], keys[b]))
        I.assume(z3.And(*cons))
        state = {}

        if what == "union":
            def thunk(I):
                nodes, _, _ = pool()
                state["nodes"] = nodes
                lists = {"op%d" % i: [nodes[t] for t in lst] for i, lst in enumerate(shape)}
                I.stubs["eval_path_expr"] = lambda I, op, n, c: Ok(K.mk_enum("Value", K.XMODEL, "Node", SVec(lists[op])))
                I.mstubs[("UnionStub", "operands")] = lambda I, r: SVec(sorted(lists))
                ctx = K.mk_obj("Context", K.XMODEL, size=SVec(), position=SVec(), namespaces=SVec())
                return I.call_fn(K.XEVAL, I.dump.fns[(K.XEVAL, "eval_union_expr")], [K.mk_obj("UnionStub", None), "node", ctx])

            def post(p):
                if p["kind"] == "panic":
                    return False
                r = p["value"]
                if not (isinstance(r, Enum) and r.variant == "Ok" and isinstance(r.fields[0], Enum) and r.fields[0].variant == "Node"):
                    return False
                got = tags(r.fields[0].fields[0])
                want = set(t for lst in shape for t in lst)
                if set(got) != want or len(got) != len(want):
                    return False
                return sorted_cond(keys, r.fields[0].fields[0], True)
        elif what == "paths":
            # shape: the lists eval_loc_expr returns for the context nodes of the head (one context node if there is no head)
            def thunk(I):
                nodes, _, _ = pool()
                calls = {"n": 0}

                def loc(I, location, n, c):
                    k = calls["n"]
                    calls["n"] += 1
                    return Ok(SVec([nodes[t] for t in shape[k]])) if k < len(shape) else Ok(SVec())
                I.stubs["eval_loc_expr"] = loc
                heads = SVec(["h%d" % i for i in range(len(shape))])
                I.stubs["eval_filter_expr"] = lambda I, f, n, c: Ok(K.mk_enum("Value", K.XMODEL, "Node", heads))
                ctx = K.mk_obj("Context", K.XMODEL, size=SVec(), position=SVec(), namespaces=SVec())
                if len(shape) == 1:
                    filt = NONE
                else:
                    filt = Some((Some("filter"), K.mk_enum("LocationPathOperator", None, "Current")))
                return I.call_fn(K.XEVAL, I.dump.fns[(K.XEVAL, "eval_filtered_loc_expr")], [filt, "location", "node", ctx])

            def post(p):
                if p["kind"] == "panic":
                    return False
                r = p["value"]
                if not (isinstance(r, Enum) and r.variant == "Ok"):
                    return False
                got = tags(r.fields[0])
                want = sorted(t for lst in shape for t in lst)
                if sorted(got) != want:
                    return False
                return sorted_cond(keys, r.fields[0], False)
        elif what == "axis":
            # a step with the positional predicate [position() = t]: along a forward axis the t-th candidate in document
            # order, along a reverse axis (ancestor, ancestor-or-self, preceding, preceding-sibling) the t-th in reverse order
            axis_name, cand = shape
            target = z3.BitVec("target", 64)
            REVERSE = ("Ancestor", "AncestorOrSelf", "Preceding", "PrecedingSibling")

            def thunk(I):
                nodes, _, _ = pool()
                lst = [nodes[t] for t in cand]
                for a in ("ancestor", "ancestor_and_self", "attributes", "child", "descendant", "descendant_and_self", "following",
                          "following_sibling", "namespace", "preceding", "preceding_sibling"):
                    I.stubs[a] = lambda I, n, lst=lst: SVec(lst)
                I.stubs["eval_node_test"] = lambda I, *a: Ok(True)

                def pred(I, p_, n, c):
                    pos = I.try_repo_method(c, "get_position", [])
                    return Ok(I.truth(kstd.v_eq(I, pos, target)))
                I.stubs["eval_predicate"] = pred
                ctx = K.mk_obj("Context", K.XMODEL, size=SVec(), position=SVec(), namespaces=SVec())
                ax = K.mk_enum("AxisSpecifier", None, "Name", K.mk_enum("AxisName", None, axis_name))
                return I.call_fn(K.XEVAL, I.dump.fns[(K.XEVAL, "eval_axis_node_test")], [ax, "test", SVec(["p0"]), "ctxnode", ctx])

            def post(p):
                if p["kind"] == "panic":
                    return False
                r = p["value"]
                if not (isinstance(r, Enum) and r.variant == "Ok"):
                    return False
                got = tags(r.fields[0])
                n = len(cand)
                cases = [And(Or(target == 0, z3.UGT(target, n)), got == [])]
                import itertools as _it
                for perm in _it.permutations(cand):
                    # perm = the candidates in increasing key order
                    in_order = And(*[z3.ULT(keys[a], keys[b]) for a, b in zip(perm, perm[1:])])
                    seq = list(reversed(perm)) if axis_name in REVERSE else list(perm)
                    for t in range(n):
                        cases.append(And(in_order, target == t + 1, got == [seq[t]]))
                return Or(*cases)
        else:
            # filter: shape = (length of the primary's list, number of predicates is 1); the predicate is position() = t
            n_items = shape
            target = z3.BitVec("target", 64)

            def thunk(I):
                nodes, _, _ = pool()
                lst = [nodes[t] for t in range(n_items)]
                I.stubs["eval_primary_expr"] = lambda I, pr, n, c: Ok(K.mk_enum("Value", K.XMODEL, "Node", SVec(lst)))

                def pred(I, p_, n, c):
                    pos = I.try_repo_method(c, "get_position", [])
                    return Ok(I.truth(kstd.v_eq(I, pos, target)))
                I.stubs["eval_predicate"] = pred
                I.mstubs[("FilterStub", "primary")] = lambda I, r: "primary"
                I.mstubs[("FilterStub", "predicates")] = lambda I, r: SVec(["p0"])
                ctx = K.mk_obj("Context", K.XMODEL, size=SVec(), position=SVec(), namespaces=SVec())
                return I.call_fn(K.XEVAL, I.dump.fns[(K.XEVAL, "eval_filter_expr")], [K.mk_obj("FilterStub", None), "node", ctx])

            def post(p):
                if p["kind"] == "panic":
                    return False
                r = p["value"]
                if not (isinstance(r, Enum) and r.variant == "Ok" and isinstance(r.fields[0], Enum) and r.fields[0].variant == "Node"):
                    return False
                got = tags(r.fields[0].fields[0])
                cases = [And(target == t + 1, got == [t]) for t in range(n_items)]
                cases.append(And(Or(target == 0, z3.UGT(target, n_items)), got == []))
                return Or(*cases)
        paths = I.explore(thunk)
        out["paths"] = len(paths)
        verdict, info, nq = K.decide(I, paths, post, timeout_s)
        out["queries"] = nq + I.feas_queries
        out["fns"] = K.fn_table(I)
        if verdict == "sat":
            mdl, p = info
            out["status"] = "sat"
            w = {"what": what, "shape": shape, "keys": [K.model_int(mdl, k) for k in keys]}
            if p["kind"] == "panic":
                w["panic"] = p["msg"]
            else:
                r = p["value"]
                try:
                    lst = r.fields[0].fields[0] if what != "paths" else r.fields[0]
                    w["result"] = tags(lst)
                except Exception:  # noqa
                    w["result"] = str(r)[:100]
            out["witness"] = w
        elif verdict == "unknown":
            out["status"] = "unknown"
            out["error"] = str(info)
    except (kernel.Unsupported, nomsem.Unsupported) as e:
        out["status"] = "unsupported"
        out["error"] = str(e)
    except Exception:
        import traceback
        out["status"] = "unsupported"
        out["error"] = "exception: " + traceback.format_exc()[-700:]
    out["wall"] = time.time() - t0
    return out


# ---- replay: the same shape as a query on a real document -------------------------------------------------------

DOC = "<r><n0/><n1/><n2/></r>"


PATH_PROBES = [("/r/n2/preceding-sibling::*", [0, 1]), ("/r/*/preceding-sibling::*", [0, 1]), ("/r/n2/preceding::*", [0, 1]),
               ("/r/*/following-sibling::*", [1, 2]), ("/r/*/../*", [0, 1, 2]), ("(/r/n2 | /r/n0)/self::*", [0, 2]),
               ("/r/n0/following-sibling::*/preceding-sibling::*", [0, 1])]


AXIS_DOC = "<r><s id='1'><a/><s id='2'><b/><p/><c/></s><d/></s></r>"
AXIS_PROBES = [("string(//p/ancestor-or-self::s[1]/@id)", "2"), ("string(//p/ancestor::s[1]/@id)", "2"), ("string(//p/ancestor::*[last()]/@id)", ""),
               ("name(//p/preceding-sibling::*[1])", "b"), ("name(//p/following-sibling::*[1])", "c"), ("name(//p/preceding::*[1])", "b"),
               ("name(//p/preceding::*[2])", "a"), ("name(//p/following::*[1])", "c"), ("name(//p/following::*[2])", "d"),
               ("string(//p/ancestor-or-self::*[2]/@id)", "2"), ("name(//s[@id='1']/descendant::*[2])", "s"), ("name(//s[@id='1']/child::*[3])", "d")]


def replay_union(rp, w):
    """operand lists (pool indices) under a key assignment -> union expression on <r><n0/><n1/><n2/></r>;
    element nK is the node with the K-th smallest key"""
    rank = {t: sorted(range(M), key=lambda i: w["keys"][i]).index(t) for t in range(M)}
    ops = []
    for lst in w["shape"]:
        if not lst:
            ops.append("/r/none")
            continue
        test = " or ".join("self::n%d" % rank[t] for t in sorted(set(lst)))
        # a path that delivers every selected node three times (once per child of r) when the list has duplicates
        ops.append(("/r/*/../*[%s]" if len(set(lst)) < len(lst) else "/r/*[%s]") % test)
    expr = " | ".join(ops)
    want = sorted(set(rank[t] for lst in w["shape"] for t in lst))
    rr = rp.run({"op": "query", "doc": DOC, "input": expr})
    names = [x for x in ("n0", "n1", "n2")]
    got = None
    if rr.get("ok"):
        import re
        got = [int(m) for m in re.findall(r"XmlElement \{ n(\d) \}", rr.get("debug", ""))]
    return expr, want, got, rr


def judge(case, out):
    if "panic" in out or "died" in out:
        return True
    if not out.get("ok"):
        return True
    if "expected_value" in case:
        return out.get("value") != case["expected_value"]
    import re
    got = [int(m) for m in re.findall(r"XmlElement \{ n(\d) \}", out.get("debug", ""))]
    return got != case["expected_nodes"]


def main():
    args = common.args_for("C07")
    rep = common.Report(args)
    if args.replay:
        return common.replay_generic(args, judge)
    try:
        rp = replay.Replay()
    except replay.ReplayError as e:
        rep.inconclusive.append(str(e))
        return rep.finish()
    timeout_s = 120 if args.tier == "quick" else 600
    thorough = args.tier != "quick"
    def runs(n):
        """lists of n nodes in which equal nodes are adjacent (a document-ordered list with duplicates)"""
        out = []
        for t in itertools.product(range(M), repeat=n):
            seen, ok = [], True
            for x in t:
                if x in seen and seen[-1] != x:
                    ok = False
                if x not in seen or seen[-1] == x:
                    seen.append(x)
            if ok:
                out.append(t)
        return out
    lists2 = [()] + runs(1) + runs(2)
    lists3 = lists2 + runs(3)
    jobs = []
    # union: 1 and 2 operands over every list of <= 2 (thorough: <= 3) nodes; 3 operands over lists of <= 1 (thorough: <= 2)
    L = lists3 if thorough else lists2
    for a in L:
        jobs.append(("union", (a,), timeout_s))
    for a in L:
        for b in L:
            jobs.append(("union", (a, b), timeout_s))
    L1 = lists2 if thorough else [()] + [(a,) for a in range(M)]
    for a in L1:
        for b in L1:
            for c in L1:
                jobs.append(("union", (a, b, c), timeout_s))
    # paths: any lists (duplicates, any order) for 1..2 (thorough: 3) context nodes
    anyl = [()] + [(a,) for a in range(M)] + [(a, b) for a in range(M) for b in range(M)]
    for a in anyl:
        jobs.append(("paths", (a,), timeout_s))
    for a in anyl:
        for b in anyl:
            jobs.append(("paths", (a, b), timeout_s))
    if thorough:
        small = [()] + [(a,) for a in range(M)]
        for a in anyl:
            for b in small:
                for c in small:
                    jobs.append(("paths", (a, b, c), timeout_s))
    for n in range(0, M + 1):
        jobs.append(("filter", n, timeout_s))
    for axis_name in ("Ancestor", "AncestorOrSelf", "Child", "Descendant", "DescendantOrSelf", "Following", "FollowingSibling", "Preceding", "PrecedingSibling", "Attribute"):
        for cand in ((0, 1), (1, 0), (0, 1, 2), (2, 0, 1)):
            jobs.append(("axis", (axis_name, cand), timeout_s))
    rep.bounds = {"pool": "%d nodes with symbolic pairwise-distinct non-zero 64-bit order keys" % M,
                  "union": "1-3 operands; operand lists of <= %d nodes (3 operands: <= %d)" % (3 if thorough else 2, 2 if thorough else 1),
                  "paths": "1-%d context nodes, step results of <= 2 nodes in any order with duplicates" % (3 if thorough else 2),
                  "filter": "(E)[position() = t] over a primary of 0-%d nodes, any 64-bit t" % M,
                  "axis": "10 named axes, 2-3 candidates in any order, [position() = t] for any 64-bit t",
                  "outside": "which nodes an axis delivers or a node test keeps (C05); that order keys follow document order (C14) and that every node kind reports its key (C06.s.siblings); larger pools"}
    rep.assumptions += [
        "dom XmlNode::order is a stub returning the node's symbolic key; eval_path_expr / eval_loc_expr / eval_primary_expr / eval_predicate are stubs returning the lists of the shape under test",
        "std models of engine/sx/kstd.py: HashSet::insert, Vec::retain/append, sort_by_cached_key as a stable sort whose comparisons fork the path",
        "operands of a union arrive in document order, possibly with duplicates (established by the `paths` obligations and by `union` itself for nested unions)",
    ]
    known_open, _ = common.known_findings("C07")
    with mp.Pool(min(args.jobs, len(jobs))) as pool_:
        results = pool_.map(work, jobs, chunksize=8)
    groups = {}
    first_bad = {}
    for res in results:
        what, shape = res["job"]
        rep.queries += res["queries"]
        rep.functions.update(res.get("fns", {}))
        g = groups.setdefault(what, {"shapes": 0, "holds": 0, "sat": 0, "paths": 0})
        g["shapes"] += 1
        g["paths"] += res["paths"]
        if res["status"] == "holds":
            g["holds"] += 1
        elif res["status"] == "sat":
            g["sat"] += 1
            cur = first_bad.get(what)
            size = sum(len(x) for x in shape) if what in ("union", "paths") else (len(shape[1]) if what == "axis" else shape)
            if cur is None or size < cur[0]:
                first_bad[what] = (size, res)
        else:
            rep.inconclusive.append("C07.s.%s %s: %s" % (what, shape, str(res["error"])[:300]))
    for what, g in sorted(groups.items()):
        oid = "C07.s.%s" % what
        status = "holds"
        if g["sat"]:
            res = first_bad[what][1]
            w = res["witness"]
            status = "inconclusive"
            if what == "union":
                expr, want, got, rr = replay_union(rp, w)
                rep.replays += 1
                if "panic" in rr or "died" in rr or (got is not None and got != want):
                    status = "violated"
                    rep.violation(oid, {"op": "query", "doc": DOC, "input": expr, "property": "C07", "expected_nodes": want},
                                  "%s on %s returns the elements %s; the node-set in document order without duplicates is %s" % (expr, DOC, got, want))
                else:
                    rep.inconclusive.append("%s: model witness %s does not reproduce (%s -> %s)" % (oid, w, expr, str(rr)[:120]))
            elif what == "axis":
                hit = None
                for expr, want in AXIS_PROBES:
                    rr = rp.run({"op": "query", "doc": AXIS_DOC, "input": expr})
                    rep.replays += 1
                    if "panic" in rr or "died" in rr or not (rr.get("ok") and rr.get("value") == want):
                        hit = (expr, want, rr)
                        break
                if hit:
                    status = "violated"
                    rep.violation(oid, {"op": "query", "doc": AXIS_DOC, "input": hit[0], "property": "C07", "expected_value": hit[1]},
                                  "%s on %s gives %s; positions along the axis direction give %r (model witness %s)" % (hit[0], AXIS_DOC, hit[2].get("value", hit[2]), hit[1], w))
                else:
                    rep.inconclusive.append("%s: model witness %s does not show on the axis probes" % (oid, w))
            elif what == "paths":
                # the real path evaluator on shapes that need the final sort: reverse axes and several context nodes
                hit = None
                for expr, want in PATH_PROBES:
                    rr = rp.run({"op": "query", "doc": DOC, "input": expr})
                    rep.replays += 1
                    import re
                    got = [int(m_) for m_ in re.findall(r"XmlElement \{ n(\d) \}", rr.get("debug", ""))] if rr.get("ok") else None
                    if "panic" in rr or "died" in rr or got != want:
                        hit = (expr, want, got)
                        break
                if hit:
                    status = "violated"
                    rep.violation(oid, {"op": "query", "doc": DOC, "input": hit[0], "property": "C07", "expected_nodes": hit[1]},
                                  "%s on %s returns the elements %s; in document order without duplicates: %s" % (hit[0], DOC, hit[2], hit[1]))
                else:
                    rep.inconclusive.append("%s: model witness %s does not reproduce on the path probes" % (oid, w))
            else:
                rep.inconclusive.append("%s: model witness %s (no replay driver for this shape)" % (oid, w))
        rep.obligation(oid, status, reach="sat", shapes=g["shapes"], shapes_holding=g["holds"], shapes_with_witness=g["sat"], paths=g["paths"],
                       first_witness=first_bad[what][1]["witness"] if what in first_bad else None)
    rp.close()
    return rep.finish()


if __name__ == "__main__":
    sys.exit(main())
