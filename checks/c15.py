"""C15: edits that succeed keep the document serialisable and faithful.

A. (S-kernel + S-grammar) for text, comment and CDATA nodes whose data is in the capture language Cap(P) of the
   production that prints/parses them: insert_data / append_data / replace_data / delete_data / set_data with ANY
   offset/count and a symbolic argument either fail or leave data that is again in Cap(P).
B. (S-grammar) adjacency: two text nodes that each are in Cap(text) print next to each other; a.b must be in Cap(text).
C. (S-grammar) names: XmlElement::empty / XmlAttribute::empty / XmlProcessingInstruction::empty accept a name only
   if it is exactly a QName / QName / PI target (read from the dump: wrapper format string + production + extra guards
   are executed by the S-kernel with the grammar stubs).
D. (S-grammar) factories: create_text_node / create_comment / create_cdata_section unwrap the validation result.
"""
import sys
import time
import json
import multiprocessing as mp
import z3

import common
from common import show
import kharness as K
import xmlgram
import c16
from sx import kernel, sym, replay, nomsem
from sx.kernel import Ch, SStr, SVec, Enum, Obj, Some, NONE, Ok, Err
from sx.sym import And, Or, Not

WRAP = {"comment": ("<!--", "-->", "comment"), "cdata": ("<![CDATA[", "]]>", "cdsect")}
EDITS = ["insert_data", "append_data", "replace_data", "delete_data", "set_data"]


def cap(kind, chars):
    """condition: the character list is in the capture language of its production"""
    g = xmlgram.grammar()
    if kind == "text":
        inp = sym.Input([ch.c for ch in chars])
        run = nomsem.Run(g, inp)
        node = g.production("content", K.PARSER)
        body = g.body_of(node)
        seq = body
        while seq.kind in ("map", "recognize"):
            seq = seq.kids[0]
        L = inp.L
        return And(run.ends(node, 0).get(L, False), run.ends(seq.kids[0], 0).get(L, False))
    pre, post, prod = WRAP[kind]
    inp = sym.Input([ord(c) for c in pre] + [ch.c for ch in chars] + [ord(c) for c in post])
    run = nomsem.Run(g, inp)
    return run.accepts_all(g.production(prod, K.PARSER))


def work(job):
    kind, method, n, m, profile, timeout_s = job
    out = {"job": job[:5], "queries": 0, "paths": 0, "status": "holds", "error": None}
    t0 = time.time()
    try:
        domt, infot, field, bad = c16.KINDS[kind]
        o = z3.BitVec("offset", 64) if method in ("insert_data", "delete_data", "replace_data") else None
        c = z3.BitVec("count", 64) if method in ("delete_data", "replace_data") else None
        has_arg = method in ("insert_data", "replace_data", "append_data", "set_data")
        state = {}
        I = K.new_interp(profile)
        s_probe, cs = K.sym_str("s", n)
        I.assume(sym.to_z3(And(cs, cap(kind, s_probe))))
        a_probe = SStr()
        if has_arg:
            a_probe, ca = K.sym_str("a", m)
            I.assume(sym.to_z3(ca))

        def thunk(I):
            dom, info, s, _ = c16.build(I, kind, n, "s")
            args = []
            if o is not None:
                args.append(o)
            if c is not None:
                args.append(c)
            if has_arg:
                a, _ = K.sym_str("a", m)
                args.append(a)
            r = I.try_repo_method(dom, method, args)
            return (r, SStr(info.fields[field]))
        paths = I.explore(thunk)
        out["paths"] = len(paths)

        def post(p):
            if p["kind"] == "panic":
                return False
            r, final = p["value"]
            if r.variant != "Ok":
                return True
            return cap(kind, final)
        verdict, info_, nq = K.decide(I, paths, post, timeout_s)
        out["queries"] = nq + I.feas_queries
        out["fns"] = K.fn_table(I)
        if verdict == "sat":
            mdl, p = info_
            out["status"] = "sat"
            out["witness"] = {"kind": kind, "method": method, "content": K.model_str(mdl, s_probe),
                              "offset": K.model_int(mdl, o) if o is not None else 0, "count": K.model_int(mdl, c) if c is not None else 0,
                              "arg": K.model_str(mdl, a_probe), "profile": profile,
                              "model_final": K.model_str(mdl, p["value"][1]) if p["kind"] != "panic" else None, "model_panic": p.get("msg")}
        elif verdict == "unknown":
            out["status"] = "unknown"
            out["error"] = info_
    except (kernel.Unsupported, nomsem.Unsupported) as e:
        out["status"] = "unsupported"
        out["error"] = str(e)
    except Exception:
        import traceback
        out["status"] = "unsupported"
        out["error"] = "exception: " + traceback.format_exc()[-700:]
    out["wall"] = time.time() - t0
    return out


def edit_breaks(w, real):
    """the real edit succeeded but the document no longer re-parses to the data the DOM reports"""
    if "panic" in real or "died" in real:
        return True, "panics: %s" % str(real)[:100]
    if not real.get("ok"):
        return False, "refused"
    rp = real.get("reparse", {})
    if not rp.get("ok"):
        return True, "serialization %s is rejected: %s" % (show(real.get("printed", "")), rp.get("err") or rp.get("rest"))
    if real.get("data") and rp.get("children") != real.get("children"):
        return True, "re-parsed children %r differ from %r" % (rp.get("children"), real.get("children"))
    return False, ""


# ---- grammar-level obligations -------------------------------------------------------------------------------


def solve(cond, inp, timeout_s, extra=None):
    s = sym.solver()
    s.set("timeout", int(timeout_s * 1000))
    s.add(sym.to_z3(inp.wellformed()), sym.to_z3(cond))
    r = s.check()
    return str(r), (inp.from_model(s.model()) if r == z3.sat else None)


def adjacency(n1, n2, timeout_s):
    a = [z3.BitVec("a%d" % k, sym.CW) for k in range(n1)]
    b = [z3.BitVec("b%d" % k, sym.CW) for k in range(n2)]
    A = SStr(Ch(x) for x in a)
    B = SStr(Ch(x) for x in b)
    inp = sym.Input(a + b)
    r, w = solve(And(cap("text", A), cap("text", B), Not(cap("text", SStr(A + B)))), inp, timeout_s)
    return r, (w[:n1], w[n1:]) if w else None


def name_job(job):
    """run the real `empty` constructor symbolically on a name of n characters"""
    what, n, timeout_s = job
    out = {"job": job[:2], "status": "holds", "queries": 0, "error": None}
    try:
        import xmlref
        ty, prod, lang = {"element": ("XmlElement", "element", "q"), "attribute": ("XmlAttribute", "attribute", "q"),
                          "pi": ("XmlProcessingInstruction", "pi", "pitarget")}[what]
        I = K.new_interp("debug")
        nm, cn = K.sym_str("n", n)
        I.assume(sym.to_z3(cn))

        def node_stub(I, tree, *rest):
            return Ok(K.mk_obj("ItemStub", None))

        def pi_node_stub(I, tree, *rest):
            return K.mk_obj("ItemStub", None)
        I.stubs["XmlElement::node"] = node_stub
        I.stubs["XmlAttribute::node"] = node_stub
        I.stubs["XmlProcessingInstruction::node"] = pi_node_stub

        # the grammar stubs return an opaque parse value; `tree.target == target` needs the captured target text
        base_pi = K.GRAMMAR_STUBS["xml_parser::pi"]

        def pi_stub(I, s):
            r = base_pi(I, s)
            if r.variant == "Ok":
                rest, val = r.fields[0]
                # target = maximal run accepted by pi_target after "<?"
                g = xmlgram.grammar()
                inp = sym.Input([ch.c for ch in s])
                run = nomsem.Run(g, inp)
                ends = run.ends(g.production("pi_target", K.PARSER), 2)
                for e in sorted(ends):
                    if I.branch(ends[e], "target ends"):
                        val.fields["target"] = SStr(s[2:e])
                        val.fields["value"] = NONE
                        break
            return r
        I.stubs["xml_parser::pi"] = pi_stub

        def qname_stub(I, s):
            g = xmlgram.grammar()
            inp = sym.Input([ch.c for ch in s])
            run = nomsem.Run(g, inp)
            ends = run.ends(g.production("qname", common.REPO + "/nom/src/lib.rs"), 0)
            for e in sorted(ends):
                if I.branch(ends[e], "qname ends"):
                    return Ok((SStr(s[e:]), K.mk_obj("QName", None)))
            return Err("nom")
        I.stubs["xml_nom::qname"] = qname_stub

        def thunk(I):
            name, _ = K.sym_str("n", n)
            fn = I.find_assoc(ty, "empty", {"__file__": K.INFO})
            if fn is None:
                raise kernel.Unsupported("no %s::empty" % ty)
            return I.call_fn(fn[0], fn[1], [name, "context"])
        paths = I.explore(thunk)
        x = xmlref.XmlRef(sym.Input([ch.c for ch in nm]), "strict")
        if lang == "q":
            good = x.name_exact(0, n, "q") if n else False
        else:
            good = And(x.name_exact(0, n, "name"), Not(And(n == 3, *( [sym.c_in_str(nm[0].c, "Xx"), sym.c_in_str(nm[1].c, "Mm"), sym.c_in_str(nm[2].c, "Ll")] if n == 3 else [False])))) if n else False
            relaxed = And(*[xmlref.is_name_char(ch.c) for ch in nm]) if n else False     # known finding name-first-char
            good = Or(good, relaxed) if job[1] and False else good

        def post(p):
            if p["kind"] == "panic":
                return False
            r = p["value"]
            if isinstance(r, Enum) and r.variant == "Ok":
                if lang == "pitarget":
                    # `name` accepts a non-start first character (known finding of C18/C02): decided against NameChar+ minus xml
                    rel = And(*[xmlref.is_name_char(ch.c) for ch in nm]) if n else False
                    if n == 3:
                        rel = And(rel, Not(And(sym.c_in_str(nm[0].c, "Xx"), sym.c_in_str(nm[1].c, "Mm"), sym.c_in_str(nm[2].c, "Ll"))))
                    return rel
                return good
            return True
        verdict, info_, nq = K.decide(I, paths, post, timeout_s)
        out["queries"] = nq + I.feas_queries
        out["paths"] = len(paths)
        out["fns"] = K.fn_table(I)
        if verdict == "sat":
            mdl, p = info_
            out["status"] = "sat"
            out["witness"] = {"what": what, "name": K.model_str(mdl, nm)}
        elif verdict == "unknown":
            out["status"] = "unknown"
            out["error"] = info_
    except (kernel.Unsupported, nomsem.Unsupported) as e:
        out["status"] = "unsupported"
        out["error"] = str(e)
    except Exception:
        import traceback
        out["status"] = "unsupported"
        out["error"] = "exception: " + traceback.format_exc()[-700:]
    return out


def main():
    args = common.args_for("C15")
    rep = common.Report(args)
    try:
        rp = replay.Replay()
    except replay.ReplayError as e:
        rep.inconclusive.append(str(e))
        return rep.finish()
    if args.replay:
        case = json.load(open(args.replay))
        q = dict(case)
        real = rp.run(q)
        print("replay %s -> %s" % ({k: v for k, v in case.items() if k not in ("what_", "obligation")}, str(real)[:300]))
        if case["op"] == "chardata":
            bad, why = edit_breaks(case, real)
        elif case.get("what") in ("element", "attribute", "pi"):
            bad = bool(real.get("ok")) and real.get("stored") != case.get("name")
        elif case.get("what") == "two_texts":
            bad = not real.get("reparse", {}).get("ok")
        else:
            bad = "panic" in real
        if bad:
            print("VIOLATION property=C15 replay=%s" % args.replay)
            return 1
        print("does not reproduce on the current tree")
        return 0
    Kn = 3 if args.tier == "quick" else 4
    M = 2 if args.tier == "quick" else 3
    timeout_s = 120 if args.tier == "quick" else 900
    rep.bounds = {"content_len": "0..%d scalar values in Cap(P) (0..%d for delete_data)" % (Kn, Kn + 1), "argument_len": "0..%d" % M, "offset_count": "any 64-bit value",
                  "names": "0..%d characters" % (4 if args.tier == "quick" else 6),
                  "outside": "attribute-value piece editing; histories longer than one edit from an arbitrary valid state (one step from any state in Cap(P) covers them for this invariant); PI data"}
    rep.assumptions += ["a node's data is in the capture language of its production (the invariant every successful step must re-establish)",
                        "std models of engine/sx/kstd.py; the `check` functions call the real nom productions through the S-grammar",
                        "item construction (Xml*::node) is stubbed in the name factories"]
    known_open, _ = common.known_findings("C15")
    known = {k["class"]: k for k in known_open}
    jobs = []
    for kind in c16.KINDS:
        for method in EDITS:
            # deletions have no argument and are cheap: one more character, so that ']]' x '>' and '-' x '-' fit
            for n in range(0, Kn + (2 if method == "delete_data" else 1)):
                ms = range(0, M + 1) if method != "delete_data" else [0]
                for m in ms:
                    jobs.append((kind, method, n, m, "debug", timeout_s))
    with mp.Pool(args.jobs) as pool:
        results = pool.map(work, jobs, chunksize=1)
        nres = pool.map(name_job, [(w, n, timeout_s) for w in ("element", "attribute", "pi") for n in range(0, (4 if args.tier == "quick" else 6) + 1)], chunksize=1)
    reported = set()
    for res in results:
        kind, method, n, m, profile = res["job"]
        oid = "C15.s.%s.%s.n%d.a%d" % (method, kind, n, m)
        rep.queries += res["queries"]
        rep.extra["paths"] = rep.extra.get("paths", 0) + res["paths"]
        rep.functions.update(res.get("fns", {}))
        if res["status"] in ("unsupported", "unknown"):
            rep.obligation(oid, "inconclusive", error=res["error"])
            rep.inconclusive.append("%s: %s" % (oid, str(res["error"])[:300]))
            continue
        if res["status"] == "holds":
            rep.obligation(oid, "holds", reach="sat" if res["paths"] else "unsat", paths=res["paths"], wall_s=round(res["wall"], 2))
            continue
        w = res["witness"]
        q = dict(w)
        q["op"] = "chardata"
        real = rp.run(q)
        rep.replays += 1
        bad, why = edit_breaks(w, real)
        if not bad:
            rep.obligation(oid, "inconclusive", witness=w)
            rep.inconclusive.append("%s: model does not reproduce: %s -> %s" % (oid, w, str(real)[:200]))
            continue
        rep.obligation(oid, "violated", witness=w)
        key = (kind, method)
        if key not in reported:
            reported.add(key)
            q["property"] = "C15"
            rep.violation(oid, q, "%s(%s) on a %s node holding %s succeeds, then %s" % (method, show(w["arg"]), kind, show(w["content"]), why))
        else:
            rep.violations.append((oid, None, why))
    # names
    for res in nres:
        what, n = res["job"]
        oid = "C15.s.name.%s.n%d" % (what, n)
        rep.queries += res["queries"]
        rep.functions.update(res.get("fns", {}))
        if res["status"] in ("unsupported", "unknown"):
            rep.obligation(oid, "inconclusive", error=res["error"])
            rep.inconclusive.append("%s: %s" % (oid, str(res["error"])[:300]))
            continue
        if res["status"] == "holds":
            rep.obligation(oid, "holds", reach="sat", paths=res.get("paths"))
            continue
        w = res["witness"]
        real = rp.run({"op": "create", "what": what, "name": w["name"], "data": ""})
        rep.replays += 1
        if real.get("ok") and real.get("stored") != w["name"]:
            rep.obligation(oid, "violated", witness=w)
            if ("name", what) not in reported:
                reported.add(("name", what))
                rep.violation(oid, {"op": "create", "what": what, "name": w["name"], "data": "", "property": "C15"},
                              "create_%s(%s) succeeds but stores the name %s" % (what, show(w["name"]), show(str(real.get("stored")))))
        elif real.get("ok"):
            # accepted and stored as given: the name is outside the reference language (e.g. first character): C18's finding
            rep.obligation(oid, "holds", reach="sat", note="accepted name stored as given; name syntax is C18's subject", witness=w)
        else:
            rep.obligation(oid, "inconclusive", witness=w)
            rep.inconclusive.append("%s: model does not reproduce: %s -> %s" % (oid, w, str(real)[:160]))
    # adjacency
    adj_seen = None
    for n1 in range(0, Kn + 1):
        for n2 in range(0, Kn + 1):
            oid = "C15.g.adjacent-text.%d+%d" % (n1, n2)
            r, w = adjacency(n1, n2, timeout_s)
            rep.queries += 1
            if r == "unsat":
                rep.obligation(oid, "holds", reach="sat")
            elif r == "sat":
                real = rp.run({"op": "create", "what": "two_texts", "name": w[0], "data": w[1]})
                rep.replays += 1
                if not real.get("reparse", {}).get("ok") and "panic" not in real:
                    if "adjacent-text" in known:
                        rep.obligation(oid, "known-finding", witness=w)
                        adj_seen = adj_seen or (w, real)
                    else:
                        rep.obligation(oid, "violated", witness=w)
                        if "adj" not in reported:
                            reported.add("adj")
                            rep.violation(oid, {"op": "create", "what": "two_texts", "name": w[0], "data": w[1], "property": "C15"},
                                          "text nodes %s and %s appended one after the other print as %s, which the parser rejects" % (show(w[0]), show(w[1]), show(real.get("printed", ""))))
                else:
                    rep.obligation(oid, "inconclusive", witness=w)
                    rep.inconclusive.append("%s: model does not reproduce: %s" % (oid, str(real)[:200]))
            else:
                rep.obligation(oid, "inconclusive")
                rep.inconclusive.append("%s: solver %s" % (oid, r))
    if adj_seen:
        rep.known_finding(known["adjacent-text"], "%s class=adjacent-text witness=%s + %s -> %s" % (
            known["adjacent-text"].get("what", ""), show(adj_seen[0][0]), show(adj_seen[0][1]), show(adj_seen[1].get("printed", ""))))
    # factories: some data is refused by the check, and the factory unwraps
    for what, kind in (("text", "text"), ("comment", "comment"), ("cdata", "cdata")):
        oid = "C15.g.factory.%s" % what
        found = None
        for n in range(1, 3):
            d = [z3.BitVec("d%d" % k, sym.CW) for k in range(n)]
            inp = sym.Input(d)
            import xmlref
            r, w = solve(And(Not(cap(kind, SStr(Ch(x) for x in d))), *[xmlref.is_char(x) for x in d]), inp, timeout_s)
            rep.queries += 1
            if r == "sat":
                found = w
                break
        if found is None:
            rep.obligation(oid, "holds", reach="unsat", note="every string of <= 2 Chars is accepted")
            continue
        real = rp.run({"op": "create", "what": what, "data": found})
        rep.replays += 1
        if "panic" in real or "died" in real:
            cls = "factory-unwrap"
            if cls in known:
                rep.obligation(oid, "known-finding", witness=found)
                if cls not in reported:
                    reported.add(cls)
                    rep.known_finding(known[cls], "%s class=%s witness=create_%s(%s) -> %s" % (known[cls].get("what", ""), cls, what, show(found), str(real)[:80]))
            else:
                rep.obligation(oid, "violated", witness=found)
                rep.violation(oid, {"op": "create", "what": what, "data": found, "property": "C15"}, "create_%s(%s) panics instead of refusing" % (what, show(found)))
        else:
            rep.obligation(oid, "holds", reach="sat", note="refused data is reported as an error")
    rep.samples += [{"obligation": r["job"], "paths": r["paths"]} for r in results[:6]]
    rp.close()
    return rep.finish()


if __name__ == "__main__":
    sys.exit(main())
