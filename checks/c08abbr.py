"""C08 (abbreviations at evaluation time): an abbreviated step and its unabbreviated spelling run the same computation.

xpath/src/eval/mod.rs eval_step_expr, eval_axis_node_test, eval_loc_expr and eval_filtered_loc_expr are executed by the
S-kernel from source.  The axis functions and the filter head are UNINTERPRETED: `child(n)` returns the two terms
child(n)#0, child(n)#1 and so on, node tests keep everything, a node's order key is not inspected (sorting is left out on
both sides).  For each XPath 1.0 abbreviation (section 2.5) the abbreviated form and its expansion are evaluated on the
same symbolic context node; the two results must be the same term lists:

   .        = self::node()                 ..       = parent::node()
   @t       = attribute::t                  t        = child::t
   A//B     = A/descendant-or-self::node()/B        (inside a relative path)
   (E)//B   = (E)/descendant-or-self::node()/B      (after a filter expression)
   //B      = /descendant-or-self::node()/B         (at the root)
"""
import common
import kharness as K
from sx import kernel, kstd, sym
from sx.kernel import Enum, Obj, Ok, Err, Some, NONE, SStr, SVec

AXIS_FNS = ["ancestor", "ancestor_and_self", "attributes", "child", "descendant", "descendant_and_self", "following",
            "following_sibling", "namespace", "preceding", "preceding_sibling"]


def interp():
    I = K.new_interp("debug")
    I.files_in_scope = (K.XFUNC, K.XMODEL, K.XEVAL)

    def axis_stub(name):
        return lambda I, n: SVec([(name, n, 0), (name, n, 1)])
    for a in AXIS_FNS:
        I.stubs[a] = axis_stub(a)
    I.stubs["eval_node_test"] = lambda I, *a: Ok(True)
    I.stubs["eval_filter_expr"] = lambda I, f, n, c: Ok(K.mk_enum("Value", K.XMODEL, "Node", SVec([("head", 0), ("head", 1)])))
    I.mstubs = {("LocStub", "operand"): lambda I, r: r.fields["operand"], ("LocStub", "operations"): lambda I, r: SVec(r.fields["operations"]),
                ("CtxNode", "parent_node"): lambda I, r: Some(("parent", "ctx")), ("XmlElement", "owner_document"): lambda I, r: Some(K.mk_obj("DocStub", None)), ("CtxNode", "owner_document"): lambda I, r: Some(K.mk_obj("DocStub", None)),
                ("DocStub", "as_node"): lambda I, r: ("root",)}
    return I


def axis(name):
    if name in ("@", ""):
        return K.mk_enum("AxisSpecifier", None, "Abbreviated", kernel.from_pystr(name))
    return K.mk_enum("AxisSpecifier", None, "Name", K.mk_enum("AxisName", None, name))


def step(ax, test="t"):
    return K.mk_enum("Step", None, "Test", axis(ax), test, SVec())


NODE = K.mk_enum("NodeTest", None, "Type", K.mk_enum("NodeType", None, "Node")) if False else "node()"
CUR = lambda: K.mk_enum("LocationPathOperator", None, "Current")
DOS = lambda: K.mk_enum("LocationPathOperator", None, "DescendantOrSelfNode")


def loc(operand, operations=()):
    return K.mk_obj("LocStub", None, operand=operand, operations=list(operations))


def run(thunk):
    I = interp()
    paths = I.explore(thunk)
    out = []
    for p in paths:
        if p["kind"] == "panic":
            out.append(("panic", p["msg"]))
        else:
            out.append(("ret", plain(p["value"])))
    return out, K.fn_table(I)


def plain(v):
    if isinstance(v, Enum):
        return (v.variant,) + tuple(plain(x) for x in v.fields)
    if isinstance(v, (list, tuple)):
        return tuple(plain(x) for x in v)
    if isinstance(v, Obj):
        return ("obj", v.ty)
    return v


def pairs():
    """(name, abbreviated thunk, expanded thunk)"""
    ctxnode = lambda: K.mk_obj("CtxNode", None)
    docnode = lambda: K.mk_enum("XmlNode", K.DOM, "Document", K.mk_obj("XmlDocument", K.DOM))
    # a context node that is not the document (inside a predicate): absolute paths still start at the root
    elemnode = lambda: K.mk_enum("XmlNode", K.DOM, "Element", K.mk_obj("XmlElement", K.DOM))
    ctx = lambda: K.mk_obj("Context", K.XMODEL, size=SVec(), position=SVec(), namespaces=SVec())

    def call(I, fn, args):
        return I.call_fn(K.XEVAL, I.dump.fns[(K.XEVAL, fn)], args)
    P = []
    P.append((". = self::node()", lambda I: call(I, "eval_step_expr", [K.mk_enum("Step", None, "Current"), "n", ctx()]),
              lambda I: call(I, "eval_step_expr", [step("Current", "node()"), "n", ctx()])))
    P.append((".. = parent::node()", lambda I: call(I, "eval_step_expr", [K.mk_enum("Step", None, "Parent"), ctxnode(), ctx()]),
              lambda I: call(I, "eval_step_expr", [step("Parent", "node()"), ctxnode(), ctx()])))
    P.append(("@t = attribute::t", lambda I: call(I, "eval_step_expr", [step("@"), "n", ctx()]), lambda I: call(I, "eval_step_expr", [step("Attribute"), "n", ctx()])))
    P.append(("t = child::t", lambda I: call(I, "eval_step_expr", [step(""), "n", ctx()]), lambda I: call(I, "eval_step_expr", [step("Child"), "n", ctx()])))
    P.append(("a//b = a/descendant-or-self::node()/b",
              lambda I: call(I, "eval_loc_expr", [loc(step("Child", "a"), [(DOS(), step("Child", "b"))]), "n", ctx()]),
              lambda I: call(I, "eval_loc_expr", [loc(step("Child", "a"), [(CUR(), step("DescendantOrSelf", "node()")), (CUR(), step("Child", "b"))]), "n", ctx()])))
    P.append(("(E)//b = (E)/descendant-or-self::node()/b",
              lambda I: call(I, "eval_filtered_loc_expr", [Some((Some("filter"), DOS())), loc(step("Child", "b")), ctxnode(), ctx()]),
              lambda I: call(I, "eval_filtered_loc_expr", [Some((Some("filter"), CUR())), loc(step("DescendantOrSelf", "node()"), [(CUR(), step("Child", "b"))]), ctxnode(), ctx()])))
    P.append(("//b = /descendant-or-self::node()/b",
              lambda I: call(I, "eval_filtered_loc_expr", [Some((NONE, DOS())), loc(step("Child", "b")), docnode(), ctx()]),
              lambda I: call(I, "eval_filtered_loc_expr", [Some((NONE, CUR())), loc(step("DescendantOrSelf", "node()"), [(CUR(), step("Child", "b"))]), docnode(), ctx()])))
    P.append(("//b = /descendant-or-self::node()/b (context node inside the document)",
              lambda I: call(I, "eval_filtered_loc_expr", [Some((NONE, DOS())), loc(step("Child", "b")), elemnode(), ctx()]),
              lambda I: call(I, "eval_filtered_loc_expr", [Some((NONE, CUR())), loc(step("DescendantOrSelf", "node()"), [(CUR(), step("Child", "b"))]), elemnode(), ctx()])))
    return P


PROBES = [("<r><a/><x/><x/></r>", "count(/r/a[count(//x) = 2])", "count(/r/a[count(/descendant-or-self::node()/x) = 2])"),
          ("<r><a/><x/></r>", "count(/r/*[//x])", "count(/r/*[/descendant-or-self::node()/child::x])"),
          ("<r><a><b/></a><b/></r>", "count((/r)//b)", "count((/r)/descendant-or-self::node()/b)"),
          ("<r><a><b/></a><b/></r>", "count((/r/a)//.)", "count((/r/a)/descendant-or-self::node()/self::node())"),
          ("<r><a><b/></a><b/></r>", "count(/r//b)", "count(/r/descendant-or-self::node()/b)"),
          ("<r><a><b/></a><b/></r>", "count(//b)", "count(/descendant-or-self::node()/b)"),
          ("<r x='1'><a x='2'/></r>", "count(//@x)", "count(//attribute::x)"),
          ("<r><a><b/></a></r>", "count(/r/a/b/..)", "count(/r/a/b/parent::node())"),
          ("<r><a/></r>", "count(/r/a/.)", "count(/r/a/self::node())")]


def judge(case, out):
    return "panic" in out or "died" in out or out.get("a") != out.get("b")


def obligations(rep, rp):
    bad = []
    n = 0
    for name, f_abbr, f_full in pairs():
        try:
            ra, fa = run(f_abbr)
            rb, fb = run(f_full)
        except (kernel.Unsupported, kernel.Panic) as e:
            rep.inconclusive.append("C08.s.abbrev %s: %s: %s" % (name, type(e).__name__, e))
            continue
        rep.functions.update(fa)
        rep.functions.update(fb)
        n += 1
        if ra != rb or any(k == "panic" for k, _ in ra):
            bad.append((name, str(ra)[:300], str(rb)[:300]))
    rep.bounds["abbreviations"] = {"pairs": [p[0] for p in pairs()], "outside": "the sorting of step results (left out on both sides), predicates inside the steps, node tests (C05)"}
    rep.assumptions.append("abbreviations: the axis functions, the filter head and eval_node_test are uninterpreted (tagged terms); results are compared as term lists")
    status = "holds"
    if bad:
        hit = None
        for doc, qa, qb in PROBES:
            r1 = rp.run({"op": "query", "doc": doc, "input": qa})
            r2 = rp.run({"op": "query", "doc": doc, "input": qb})
            rep.replays += 2
            if "panic" in r1 or "panic" in r2 or "died" in r1 or "died" in r2 or r1.get("value") != r2.get("value"):
                hit = (doc, qa, qb, r1, r2)
                break
        if hit:
            status = "violated"
            doc, qa, qb, r1, r2 = hit
            rep.violation("C08.s.abbrev", {"op": "queries", "doc": doc, "exprs": [qa, qb], "property": "C08"},
                          "%s = %s but %s = %s on %s (model: %s)" % (qa, r1.get("value", r1), qb, r2.get("value", r2), doc, bad[0]))
        else:
            status = "inconclusive"
            rep.inconclusive.append("C08.s.abbrev: the term lists differ for %s but no probe query shows it" % [b[0] for b in bad])
    rep.obligation("C08.s.abbrev", status, reach="sat", pairs=n, differing=[b[0] for b in bad], detail=bad[:3])
