"""C03 / C06 (grammar level): no panic arm is reachable from an accepted input; unsupported constructs are
refused with an error; no production is entered more than T times at one input position (no exponential
re-parsing).  Decided by z3 over the S-grammar encoding and its work semantics (engine/sx/active.py)."""
import json
import multiprocessing as mp
import os
import subprocess
import sys
import time

import common
from common import show
import z3
import xmlgram
from sx import nomsem, sym, active, replay
from sx.sym import And, Or, Not

T = 8          # entries of one production at one position
BITS = 5

XP = common.REPO + "/xpath/src/expr/mod.rs"
XP_MODEL = common.REPO + "/xpath/src/expr/model.rs"
XP_EVAL = [common.REPO + "/xpath/src/eval/mod.rs", common.REPO + "/xpath/src/eval/func.rs"]
XP_FILES = [XP, XP_MODEL] + XP_EVAL + [common.REPO + "/nom/src/lib.rs", common.REPO + "/nom/src/xmlchar.rs", common.REPO + "/nom/src/helper.rs"]

_xp_dump = None


def xpath_grammar():
    global _xp_dump
    if _xp_dump is None:
        _xp_dump = nomsem.Dump(XP_FILES)
    return nomsem.Grammar(_xp_dump)


def setup(prop):
    """-> (grammar, root production, panic sites, reject sites, other panic macros)"""
    if prop == "C03":
        g = xmlgram.grammar()
        root = g.production("document", xmlgram.GRAMMAR_FILES[0])
        arms = xmlgram.variant_arms(g, xmlgram.INFO_FILE, "parser")
        sites = [(a, xmlgram.variant_sites(g, a[0], a[1])) for a in arms]
    else:
        g = xpath_grammar()
        root = g.production("parse", XP)
        arms = []
        for f in XP_EVAL:
            arms += xmlgram.variant_arms(g, f, "expr")
        sites = [(a, xmlgram.variant_sites(g, a[0], a[1], XP, XP_MODEL)) for a in arms]
    for a, s in sites:
        if not s:
            raise nomsem.Unsupported("no grammar site builds %s::%s (arm in %s)" % (a[0], a[1], a[3]))
    return g, root, sites


def inputs(prop, tier):
    if prop == "C03":
        n = 10 if tier == "quick" else 14
        free = list(range(0, n + 1))
        h = 8 if tier == "quick" else 12
        tpl = [("contentspec", ["<!DOCTYPE a [<!ELEMENT a ", h, ">]><a/>"]),
               ("intsubset", ["<!DOCTYPE a [", h, "]><a/>"]),
               ("attvalue", ["<a b=\"", h, "\"/>"]),
               ("content", ["<a>", h, "</a>"])]
    else:
        n = 6 if tier == "quick" else 7      # length 8 did not finish within 45 min on 16 cores
        free = list(range(0, n + 1))
        tpl = [("parens", ["((((", 3 if tier == "quick" else 4, "))))"]),
               ("calls", ["f(f(f(", 3 if tier == "quick" else 4, ")))"]),
               ("preds", ["a[a[a[", 3 if tier == "quick" else 4, "]]]"])]
    return free, tpl


def work(job):
    prop, kind, spec, timeout_s, seed = job
    out = {"job": (kind, str(spec)), "queries": 0, "solver_s": 0.0, "results": [], "error": None}
    t0 = time.time()
    try:
        g, root, sites = setup(prop)
        inp = sym.Input.symbolic(spec) if kind == "free" else sym.Input.template(spec)
        run = nomsem.Run(g, inp)
        acc = run.accepts_all(root)
        wf = sym.to_z3(inp.wellformed())

        def ask(cond, tag, extra=None):
            s = sym.solver(seed=seed)
            s.set("timeout", int(timeout_s * 1000))
            s.add(wf, sym.to_z3(cond))
            t = time.time()
            r = s.check()
            out["queries"] += 1
            out["solver_s"] += time.time() - t
            res = {"q": tag, "r": str(r)}
            if extra:
                res.update(extra)
            if r == z3.sat:
                res["witness"] = inp.from_model(s.model())
            out["results"].append(res)
            return res
        # --- variant arms --------------------------------------------------------------------
        if acc is not False and sites:
            act = active.activation(run, root, acc)
            for (enum, variant, action, fname, line), nodes in sites:
                conds = [a for (nid, p), (node, a) in act.items() if any(nid == n.id for n in nodes)]
                ask(Or(*conds), "%s:%s::%s" % (action, enum, variant), {"arm": "%s:%s" % (fname, line)})
        # --- entry counts --------------------------------------------------------------------
        pc = active.production_counts(run, root, 0, BITS)
        byname = {}
        for (name, i), c in pc.items():
            if isinstance(c, int):
                if c > T:
                    byname.setdefault(name, []).append(True)
            else:
                byname.setdefault(name, []).append(z3.UGT(c, T))
        out["productions"] = len(byname)
        out["instances"] = len(pc)
        for name, conds in sorted(byname.items()):
            ask(Or(*conds), "evals:" + name)
        # reachability twin: something of this shape is accepted
        r = ask(acc, "reach")
        out["reach"] = r["r"]
        out["sample"] = r.get("witness")
        out["results"].pop()
        out["fns"] = common.fn_table(g)
    except nomsem.Unsupported as e:
        out["error"] = "unsupported: %s" % e
    except Exception:
        import traceback
        out["error"] = "exception: " + traceback.format_exc()[-800:]
    out["wall"] = time.time() - t0
    return out


def gdb_count(binary, crate, fn, case):
    """number of times the real function crate::fn is entered while the replay binary runs `case`"""
    nm = subprocess.run(["nm", binary], capture_output=True, text=True).stdout
    want = "_ZN%d%s%d%s17h" % (len(crate), crate, len(fn), fn)
    syms = [ln.split()[-1] for ln in nm.splitlines() if want in ln and ln.split()[-1].startswith(want)]
    if len(syms) != 1:
        return None
    path = os.path.join(common.ROOT, "build", "gdbcase.json")
    with open(path, "w") as f:
        f.write(json.dumps(case) + "\n")
    r = subprocess.run(["gdb", "-batch", "-ex", "set language c", "-ex", "break " + syms[0], "-ex", "ignore 1 100000000",
                        "-ex", "run < " + path, "-ex", "info breakpoints", binary], capture_output=True, text=True, timeout=300)
    for ln in r.stdout.splitlines():
        if "breakpoint already hit" in ln:
            return int(ln.split("hit")[1].split()[0])
    return 0


def other_panic_macros(files):
    """panic macros outside parser-variant arms: listed in the evidence as not decided here"""
    out = []
    d = nomsem.Dump(files)

    def walk(v, where):
        if isinstance(v, dict):
            if v.get("k") == "macro" and v.get("name") in ("unimplemented", "todo", "panic"):
                out.append("%s line %s: %s!" % (where, v.get("line"), v["name"]))
            for x in v.values():
                walk(x, where)
        elif isinstance(v, list):
            for x in v:
                walk(x, where)
    for f in files:
        for it in d.items[f]:
            if "body" in it:
                walk(it["body"], "%s %s" % (f.replace(common.REPO + "/", ""), ((it.get("self_ty") or "") + "::" + it["name"]).strip(":")))
    return out


def main(prop):
    args = common.args_for(prop)
    rep = common.Report(args)
    if args.replay:
        def judge(case, out):
            if case.get("op") == "siblings":
                import c06sib
                return c06sib.judge(case, out)
            return "panic" in out or "died" in out
        return common.replay_generic(args, judge)
    timeout_s = {"quick": 300, "thorough": 1800}[args.tier]
    free, tpl = inputs(prop, args.tier)
    rep.bounds = {"free_mode_lengths": [free[0], free[-1]], "templates": [t[0] for t in tpl], "T_entries_per_production_and_position": T,
                  "outside": "stack depth of deep nesting; printers (Display/IndentedDisplay); panics that need a live item graph (RefCell borrows, unwraps on DOM navigation); inputs longer than the bounds"}
    rep.assumptions += [
        "nom 7.1.3 evaluation order of alt/tuple/many0/opt/separated_list as modelled in engine/sx/active.py:work_edges (entry counts validated against gdb breakpoint hit counts on the real parser)",
        "an arm `parser::Enum::Variant(..) => unimplemented!()/todo!()/panic!()` is reachable iff an accepted input uses a grammar site that builds that variant (From impls read from model.rs)",
    ]
    try:
        g, root, sites = setup(prop)
        rp = replay.Replay()
    except (nomsem.Unsupported, replay.ReplayError) as e:
        rep.inconclusive.append(str(e))
        return rep.finish()
    rep.extra["variant_arms"] = ["%s::%s -> %s (%s:%s)" % (a[0], a[1], a[2], a[3], a[4]) for a, _ in sites]
    rep.extra["panic_macros_not_decided_here"] = other_panic_macros(
        [xmlgram.INFO_FILE, common.REPO + "/dom/src/lib.rs"] if prop == "C03" else XP_EVAL)
    # translator validation of the work semantics: predicted entries == gdb hit counts on the real parser
    probes = ([("xml_parser", "cp", "document", "<!DOCTYPE a [<!ELEMENT a (((b,(c|d))))>]><a/>"),
               ("xml_parser", "cp", "document", "<!DOCTYPE a [<!ELEMENT a (((((>]><a/>"),
               ("xml_parser", "element", "document", "<a><b><c/></b><d>x</d></a>")] if prop == "C03" else
              [("xml_xpath", "primary_expr", "xpath_parse", "(((1)))"), ("xml_xpath", "primary_expr", "xpath_parse", "f(a[1],((2)))"),
               ("xml_xpath", "step", "xpath_parse", "a/b//c[d]")])
    for crate, fn, op, s in probes:
        pred = active.concrete_total_entries(g, root, s).get(fn, 0)
        if crate == "xml_xpath":
            real = gdb_count(rp.bin, "xml_xpath", "expr", {"op": op, "input": s}) if False else gdb_count_path(rp.bin, ["xml_xpath", "expr", fn], {"op": op, "input": s})
        else:
            real = gdb_count(rp.bin, crate, fn, {"op": op, "input": s})
        if real is None:
            rep.inconclusive.append("gdb could not locate %s::%s" % (crate, fn))
        elif real != pred:
            rep.inconclusive.append("work semantics mismatch on %s: model predicts %d entries of %s, gdb counts %d" % (show(s), pred, fn, real))
        else:
            rep.tv_cases += 1
    if prop == "C06":
        # a function admitted with fewer arguments than it reads panics on args.first().unwrap(): the arity table of
        # func.rs must be the one of XPath 1.0 section 4 (shared with C09)
        try:
            import c09
            import kharness
            I0 = kharness.new_interp("debug")
            entries, bad = c09.arity_obligations(rep, I0)
            rep.obligation("C06.s.arity-table", "violated" if bad else "holds", reach="sat", detail=bad, functions=len(entries))
            for b in bad:
                name = b.split()[0]
                lo = entries.get(name, (0, 0))[0]
                expr = "%s(%s)" % (name, ", ".join(["1"] * lo))
                rr = rp.run({"op": "query", "doc": "<r/>", "input": expr})
                rep.replays += 1
                if "panic" in rr or "died" in rr:
                    rep.violation("C06.s.arity-table", {"op": "query", "input": expr, "doc": "<r/>", "property": "C06"}, "%s; %s panics: %s" % (b, expr, str(rr)[:100]))
                    break
        except Exception as e:  # noqa
            rep.inconclusive.append("arity table: %s" % e)
        # steps that select nothing (parent of the document, of an attribute, of a namespace node) must not panic
        try:
            import c06step
            c06step.obligations(rep, rp, args.tier)
        except Exception as e:  # noqa
            rep.inconclusive.append("step totality: %s: %s" % (type(e).__name__, e))
        # sibling navigation (dom XmlNode::next_sibling_child / previous_sibling_child), one step from any valid state
        try:
            import c06sib
            c06sib.obligations(rep, rp, args.tier, args.jobs)
        except Exception as e:  # noqa
            rep.inconclusive.append("sibling navigation: %s: %s" % (type(e).__name__, e))
    jobs = [(prop, "free", L, timeout_s, args.seed) for L in free] + [(prop, "tpl:" + n, p, timeout_s, args.seed) for n, p in tpl]
    jobs.sort(key=lambda j: -(j[2] if isinstance(j[2], int) else 30))
    with mp.Pool(min(args.jobs, len(jobs))) as pool:
        results = pool.map(work, jobs, chunksize=1)
    reject_seen = {}
    for res in results:
        kind, spec = res["job"]
        base = "%s.g.%s" % (prop, ("len%s" % spec) if kind == "free" else kind)
        rep.queries += res["queries"]
        rep.solver_s += res["solver_s"]
        rep.extra["instances"] = rep.extra.get("instances", 0) + res.get("instances", 0)
        if res["error"]:
            rep.obligation(base, "inconclusive", error=res["error"])
            rep.inconclusive.append("%s: %s" % (base, res["error"][:300]))
            continue
        rep.functions.update(res.get("fns", {}))
        status = "holds"
        unconfirmed = False
        for r in res["results"]:
            tag = r["q"]
            if r["r"] == "unknown":
                status = "inconclusive"
                rep.inconclusive.append("%s/%s: solver unknown/timeout" % (base, tag))
                continue
            if r["r"] != "sat":
                continue
            w = r["witness"]
            if tag.startswith("panic:"):
                op = "from_raw" if prop == "C03" else "query"
                rr = rp.run({"op": op, "input": w})
                rep.replays += 1
                if "panic" in rr or "died" in rr:
                    status = "violated"
                    rep.violation(base + "/" + tag, {"op": op, "input": w, "property": prop},
                                  "accepted input %s reaches the panicking arm %s: %s" % (show(w), r.get("arm"), str(rr)[:100]))
                else:
                    status = "inconclusive"
                    rep.inconclusive.append("%s/%s: model does not reproduce on %s: %s" % (base, tag, show(w), str(rr)[:100]))
            elif tag.startswith("reject:"):
                # an unsupported construct: must surface as an error, not a panic
                op = "from_raw" if prop == "C03" else "query"
                rr = rp.run({"op": op, "input": w})
                rep.replays += 1
                if "panic" in rr or "died" in rr:
                    status = "violated"
                    rep.violation(base + "/" + tag, {"op": op, "input": w, "property": prop},
                                  "unsupported construct in %s panics instead of returning an error: %s" % (show(w), str(rr)[:100]))
                elif rr.get("ok") and prop == "C03":
                    status = "inconclusive"
                    rep.inconclusive.append("%s/%s: model says refused, real code accepts %s" % (base, tag, show(w)))
                else:
                    reject_seen.setdefault(tag, w)
            elif tag.startswith("evals:"):
                fn = tag[6:]
                op = "document" if prop == "C03" else "xpath_parse"
                pred = active.concrete_total_entries(g, root, w).get(fn, 0)
                real = gdb_count(rp.bin, "xml_parser", fn, {"op": op, "input": w}) if prop == "C03" else gdb_count_path(rp.bin, ["xml_xpath", "expr", fn], {"op": op, "input": w})
                rep.replays += 1
                if real is None:
                    # generic helpers (closures, other crates) have no single symbol to count: not reported on the model alone
                    rep.extra.setdefault("evals_witnesses_without_gdb_symbol", []).append("%s/%s %s" % (base, tag, show(w)))
                    unconfirmed = True
                    continue
                if real != pred:
                    status = "inconclusive"
                    rep.inconclusive.append("%s/%s: predicted %d entries, gdb counts %s on %s" % (base, tag, pred, real, show(w)))
                    continue
                status = "violated"
                rep.violation(base + "/" + tag, {"op": op, "input": w, "property": prop, "production": fn, "entries": pred},
                              "production %s is entered more than %d times at one position of %s (%d entries in total): repeated re-parsing" % (fn, T, show(w), pred))
        if unconfirmed and status == "holds":
            status = "inconclusive"
            rep.inconclusive.append("%s: re-parsing witnesses exist only for helpers that gdb cannot count" % base)
        rep.obligation(base, status, reach=res.get("reach"), sample=res.get("sample"), wall_s=round(res["wall"], 2),
                       queries=res["queries"], productions=res.get("productions"))
        if res.get("sample") and kind != "free":
            rep.samples.append({"obligation": base, "accepted_input_of_this_shape": res["sample"]})
    for tag, w in reject_seen.items():
        rep.samples.append({"unsupported_construct_refused_with_error": tag, "input": w})
    rp.close()
    return rep.finish()


def gdb_count_path(binary, path, case):
    nm = subprocess.run(["nm", binary], capture_output=True, text=True).stdout
    want = "_ZN" + "".join("%d%s" % (len(p), p) for p in path) + "17h"
    syms = [ln.split()[-1] for ln in nm.splitlines() if ln.split()[-1].startswith(want)]
    if len(syms) != 1:
        return None
    p = os.path.join(common.ROOT, "build", "gdbcase.json")
    with open(p, "w") as f:
        f.write(json.dumps(case) + "\n")
    r = subprocess.run(["gdb", "-batch", "-ex", "set language c", "-ex", "break " + syms[0], "-ex", "ignore 1 100000000",
                        "-ex", "run < " + p, "-ex", "info breakpoints", binary], capture_output=True, text=True, timeout=300)
    for ln in r.stdout.splitlines():
        if "breakpoint already hit" in ln:
            return int(ln.split("hit")[1].split()[0])
    return 0


if __name__ == "__main__":
    sys.exit(main(sys.argv.pop(1)))
