"""C06 (steps that select nothing): eval_step_expr / the axis dispatch of eval_axis_node_test never panic.

`..`, `parent::`, and every other axis are executed by the S-kernel from source for a context node of EVERY DOM node
kind.  dom XmlNode::parent_node and the per-type parent_node bodies are the real code (several are literally `None`:
document, fragment, attribute, namespace, entity, notation); what lies below them in the item graph is a stub:
info-level parent()/parent_item() of an attached node succeed, and the other axis functions return an opaque list.
Post: the call returns Ok(list) or Err - no path panics (Option::unwrap on the missing parent).
"""
import time
import z3

import common
import kharness as K
from sx import kernel, kstd, sym
from sx.kernel import Enum, Obj, Some, NONE, SVec, SStr, Ok, Err

# XmlNode variant -> (dom struct, field holding the info item)
KINDS = {"Element": ("XmlElement", "element"), "Attribute": ("XmlAttr", "attribute"), "Text": ("XmlText", "data"), "CData": ("XmlCDataSection", "data"),
         "EntityReference": ("XmlEntityReference", "value"), "Entity": ("XmlEntity", "entity"), "PI": ("XmlProcessingInstruction", "pi"),
         "Comment": ("XmlComment", "data"), "Document": ("XmlDocument", "document"), "DocumentType": ("XmlDocumentType", "declaration"),
         "DocumentFragment": ("XmlDocumentFragment", "document"), "Notation": ("XmlNotation", "notation"), "Namespace": ("XmlNamespace", "namespace")}
# a query starts at the document: these kinds are what its axes can reach
REACHABLE = ["Element", "Attribute", "Text", "CData", "EntityReference", "PI", "Comment", "Document", "Namespace"]
AXES = ["Ancestor", "AncestorOrSelf", "Attribute", "Child", "Descendant", "DescendantOrSelf", "Following", "FollowingSibling", "Namespace", "Parent",
        "Preceding", "PrecedingSibling", "Current"]
AXIS_FNS = ["ancestor", "ancestor_and_self", "attributes", "child", "descendant", "descendant_and_self", "following",
            "following_sibling", "namespace", "preceding", "preceding_sibling"]
# expression that drives the real code into the same call with a context node of that kind (document <r a='1'><e/>t<!--c--><?p?></r>)
NODE_PATH = {"Element": "/r", "Attribute": "/r/@a", "Text": "/r/text()", "CData": "/r/text()", "EntityReference": "/r/text()", "PI": "/r/processing-instruction()",
             "Comment": "/r/comment()", "Document": "", "Namespace": "/r/namespace::*"}
AXIS_NAME = {"Ancestor": "ancestor", "AncestorOrSelf": "ancestor-or-self", "Attribute": "attribute", "Child": "child", "Descendant": "descendant",
             "DescendantOrSelf": "descendant-or-self", "Following": "following", "FollowingSibling": "following-sibling", "Namespace": "namespace",
             "Parent": "parent", "Preceding": "preceding", "PrecedingSibling": "preceding-sibling", "Current": "self"}
DOC = "<r a='1'><e/>t<!--c--><?p?></r>"


def node_of(kind):
    domt, field = KINDS[kind]
    item = K.mk_obj("InfoStub", K.INFO)
    if kind == "EntityReference":
        item = K.mk_enum("XmlEntityReferenceValue", K.DOM, "Entity", item)
    return K.mk_enum("XmlNode", K.DOM, kind, K.mk_obj(domt, K.DOM, **{field: item}))


def run(kind, what):
    """what: ('step', 'Current'|'Parent') | ('axis', AxisName) -> (status, detail, queries, paths, fns)"""
    I = K.new_interp("debug")
    I.files_in_scope = (K.XFUNC, K.XMODEL, K.XEVAL, K.DOM)
    I.type_files = {"Value": [K.XMODEL], "XmlNode": [K.DOM]}
    for a in AXIS_FNS:
        I.stubs[a] = lambda I, n: SVec(["n0", "n1"])
    I.stubs["eval_node_test"] = lambda I, *a: Ok(True)
    I.stubs["XmlNode::from"] = lambda I, item: "parent-node"
    I.stubs["XmlElement::from"] = lambda I, item: K.mk_obj("XmlElement", K.DOM, element=item)
    I.stubs["XmlDocument::from"] = lambda I, item: K.mk_obj("XmlDocument", K.DOM, document=item)
    I.mstubs = {("InfoStub", "parent"): lambda I, r: Ok(K.mk_obj("InfoStub", K.INFO)),
                ("InfoStub", "parent_item"): lambda I, r: Some(K.mk_obj("InfoStub", K.INFO))}

    def thunk(I):
        node = node_of(kind)
        ctx = K.mk_obj("Context", K.XMODEL, size=SVec(), position=SVec(), namespaces=SVec())
        if what[0] == "step":
            step = K.mk_enum("Step", None, what[1])
            return I.call_fn(K.XEVAL, I.dump.fns[(K.XEVAL, "eval_step_expr")], [step, node, ctx])
        axis = K.mk_enum("AxisSpecifier", None, "Name", K.mk_enum("AxisName", None, what[1]))
        return I.call_fn(K.XEVAL, I.dump.fns[(K.XEVAL, "eval_axis_node_test")], [axis, "test", SVec(), node, ctx])
    paths = I.explore(thunk)

    def post(p):
        return p["kind"] != "panic"
    verdict, info, nq = K.decide(I, paths, post, 60)
    q = nq + I.feas_queries
    if verdict == "sat":
        mdl, p = info
        return "sat", {"panic": p.get("msg")}, q, len(paths), K.fn_table(I)
    if verdict != "holds":
        return "unknown", str(info), q, len(paths), K.fn_table(I)
    return "holds", None, q, len(paths), K.fn_table(I)


def expr_for(kind, what):
    base = NODE_PATH[kind]
    if what[0] == "step":
        tail = "." if what[1] == "Current" else ".."
    else:
        tail = "%s::node()" % AXIS_NAME[what[1]]
    return (base + "/" + tail) if base else ("/" + tail)


def judge(case, out):
    return "panic" in out or "died" in out


def obligations(rep, rp, tier):
    jobs = [(k, ("step", s)) for k in REACHABLE for s in ("Current", "Parent")] + [(k, ("axis", a)) for k in REACHABLE for a in AXES]
    bad, holds = [], 0
    for kind, what in jobs:
        try:
            st, detail, q, npaths, fns = run(kind, what)
        except (kernel.Unsupported, kernel.Panic) as e:
            rep.inconclusive.append("step totality %s %s: %s: %s" % (kind, what, type(e).__name__, e))
            continue
        rep.queries += q
        rep.functions.update(fns)
        if st == "holds":
            holds += 1
        elif st == "sat":
            bad.append((kind, what, detail))
        else:
            rep.inconclusive.append("step totality %s %s: %s" % (kind, what, detail))
    rep.bounds["step_totality"] = {"context_node_kinds": REACHABLE, "steps": [".", ".."], "axes": AXES,
                                   "outside": "predicates (C19 covers their context handling); node tests; the axis functions' own traversal (sibling navigation is C06.s.siblings)"}
    rep.assumptions.append("step totality: info-level parent()/parent_item() of a node reached from the document succeed; the other axis functions return a list")
    status = "holds"
    confirmed = []
    for kind, what, detail in bad:
        if kind not in NODE_PATH:
            continue
        expr = expr_for(kind, what)
        rr = rp.run({"op": "query", "doc": DOC, "input": expr})
        rep.replays += 1
        if "panic" in rr or "died" in rr:
            confirmed.append((kind, what, expr, rr))
    known_open, _ = common.known_findings("C06")
    if confirmed:
        status = "violated"
        kind, what, expr, rr = confirmed[0]
        rep.violation("C06.s.step-total", {"op": "query", "doc": DOC, "input": expr, "property": "C06"},
                      "%s on a context node of kind %s panics instead of selecting nothing: %s (%d step/kind combinations panic: %s)"
                      % (expr, kind, str(rr)[:100], len(confirmed), ", ".join(c[2] for c in confirmed[:8])))
    elif bad:
        status = "inconclusive"
        rep.inconclusive.append("step totality: %d model witnesses (first %s) did not reproduce on the real code" % (len(bad), bad[0]))
    rep.obligation("C06.s.step-total", status, reach="sat", combinations=len(jobs), holding=holds, with_witness=len(bad),
                   witnesses=[(k, w, d) for k, w, d in bad[:10]])
