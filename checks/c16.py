"""C16: character-data operations of the DOM on text, comment and CDATA nodes.

The real bodies (dom::Xml{Text,Comment,CDataSection} -> info::Xml{Text,Comment,CData} -> insert_char_at /
delete_char_range, the `check` closures running the real nom productions) are executed symbolically by the
S-kernel: content of exactly n scalar values (all of Unicode), offset and count ANY 64-bit value, argument of
<= 2 scalar values, in both overflow configurations (debug: overflow panics, release: wraps).
Oracle: DOM Level 1 CharacterData / Text, counting in characters.
"""
import sys
import time
import multiprocessing as mp
import z3

import common
from common import show
import kharness as K
from sx import kernel, sym, replay, nomsem
from sx.kernel import Ch, SStr, SVec, Enum, Obj, Some, NONE, Ok, Err
from sx.sym import And, Or, Not

KINDS = {
    # dom type, info type, info field, kind for replay, chars that may not occur in content built through the factories
    "text": ("XmlText", "XmlText", "text", "<&>"),
    "comment": ("XmlComment", "XmlComment", "comment", "-"),
    "cdata": ("XmlCDataSection", "XmlCData", "data", "]>"),
}
METHODS = ["length", "substring_data", "insert_data", "delete_data", "replace_data", "append_data", "set_data", "split_text"]


class Reached(Exception):
    def __init__(self, what):
        self.what = what


def build(I, kind, n, tag):
    if kind == "expanded":
        # the merged-text view: a Text node followed by a CDATA section, seen as one character-data node
        s, c = K.sym_str(tag, n)
        h = n // 2
        t_info = K.mk_obj("XmlText", K.INFO, text=SStr(s[:h]), parent_id=NONE, context="ctx")
        c_info = K.mk_obj("XmlCData", K.INFO, data=SStr(s[h:]), parent_id=NONE, context="ctx")
        nodes = SVec([K.mk_enum("XmlNode", K.DOM, "Text", K.mk_obj("XmlText", K.DOM, data=t_info)),
                      K.mk_enum("XmlNode", K.DOM, "CData", K.mk_obj("XmlCDataSection", K.DOM, data=c_info))])
        dom = K.mk_obj("XmlExpandedText", K.DOM, data=nodes)
        holder = K.mk_obj("Holder", None, all=s)
        return dom, holder, s, c
    domt, infot, field, bad = KINDS[kind]
    s, c = K.sym_str(tag, n)
    info = K.mk_obj(infot, K.INFO, **{field: s, "parent_id": NONE, "context": "ctx"})
    dom = K.mk_obj(domt, K.DOM, data=info)
    return dom, info, s, c


def content_ok(s, bad):
    import xmlref
    return And(*[And(xmlref.is_char(ch.c), Not(sym.c_in_str(ch.c, bad))) for ch in s])


def is_index_err(v):
    return isinstance(v, Enum) and v.variant == "Err" and isinstance(v.fields[0], Enum) and v.fields[0].variant == "IndexSizeErr"


def lst_eq(a, b):
    if len(a) != len(b):
        return False
    return And(*[sym.ceq(x.c, y.c) for x, y in zip(a, b)])


def ucmp(op, a, b):
    if isinstance(a, int) and isinstance(b, int):
        return {"<": a < b, "<=": a <= b, ">": a > b, ">=": a >= b, "==": a == b}[op]
    a, b = kernel.to_bv(a), kernel.to_bv(b)
    return {"<": z3.ULT(a, b), "<=": z3.ULE(a, b), ">": z3.UGT(a, b), ">=": z3.UGE(a, b), "==": a == b}[op]


def span_cases(n, o, c):
    """DOM clipping: [(cond, a, b)] with a = offset (<= n), b = min(offset + count, n) in unbounded arithmetic"""
    out = []
    for a in range(n + 1):
        for b in range(a, n + 1):
            cc = ucmp("==", c, b - a) if b < n else ucmp(">=", c, n - a)
            out.append((And(ucmp("==", o, a), cc), a, b))
    return out


def post_for(method, n, s0, o, c, arg, field, info):
    """-> function(path) -> bool term"""
    def data_now(p):
        return p["final"]

    def post(p):
        if p["kind"] == "panic":
            return False
        v = p["value"]
        cur = p["final"]
        too_far = ucmp(">", o, n) if o is not None else False
        if method == "length":
            return ucmp("==", v, n)
        if method == "substring_data":
            if is_index_err(v):
                return too_far
            if v.variant != "Ok":
                return False
            return And(Not(too_far), Or(*[And(cd, lst_eq(v.fields[0], s0[a:b])) for cd, a, b in span_cases(n, o, c)]))
        if method in ("insert_data", "append_data", "set_data", "replace_data", "delete_data"):
            if is_index_err(v):
                return And(too_far, lst_eq(cur, s0))
            if v.variant == "Err":
                # the edit was refused by the validate-by-reparse check (C15's subject): only atomicity is asserted here
                # (replace_data is delete + insert, its second half may refuse after the first has happened)
                return Not(too_far) if method in ("replace_data", "set_data") else And(Not(too_far), lst_eq(cur, s0))
            if method == "insert_data":
                return And(Not(too_far), Or(*[And(ucmp("==", o, a), lst_eq(cur, s0[:a] + arg + s0[a:])) for a in range(n + 1)]))
            if method == "append_data":
                return lst_eq(cur, s0 + arg)
            if method == "set_data":
                return lst_eq(cur, arg)
            if method == "delete_data":
                return And(Not(too_far), Or(*[And(cd, lst_eq(cur, s0[:a] + s0[b:])) for cd, a, b in span_cases(n, o, c)]))
            if method == "replace_data":
                return And(Not(too_far), Or(*[And(cd, lst_eq(cur, s0[:a] + arg + s0[b:])) for cd, a, b in span_cases(n, o, c)]))
        if method == "split_text":
            if is_index_err(v):
                return too_far
            if isinstance(v, tuple) and v[0] == "split":
                first, second = cur, v[1]
                return And(Not(too_far), Or(*[And(ucmp("==", o, a), lst_eq(first, s0[:a]), lst_eq(second, s0[a:])) for a in range(n + 1)]))
            return False
        return False
    return post


def work(job):
    kind, method, n, m, profile, timeout_s = job
    out = {"job": job[:5], "queries": 0, "paths": 0, "status": "holds", "error": None, "wall": 0.0}
    t0 = time.time()
    try:
        domt, infot, field, bad = KINDS[kind] if kind != "expanded" else ("XmlExpandedText", "Holder", "all", "<&]>")
        o = z3.BitVec("offset", 64) if method in ("substring_data", "insert_data", "delete_data", "replace_data", "split_text") else None
        c = z3.BitVec("count", 64) if method in ("substring_data", "delete_data", "replace_data") else None
        has_arg = method in ("insert_data", "replace_data", "append_data", "set_data")
        state = {}

        def node_stub(I, text, parent, ctx):
            return K.mk_obj("ItemStub", None, text=SStr(text))

        def thunk(I):
            dom, info, s, cs = build(I, kind, n, "s")
            state["s0"] = SStr(s)
            state["info"] = info
            args = []
            if o is not None:
                args.append(o)
            if c is not None:
                args.append(c)
            if has_arg:
                a, ca = K.sym_str("a", m)
                state["arg"] = SStr(a)
                args.append(a)
            if method == "split_text":
                # run the DOM bounds check, then the info-level split (the sibling insertion needs the item graph)
                if I.truth(I.std.v_cmp(I, "<", I.try_repo_method(dom, "length", []), o)):
                    r = I.try_repo_method(dom, "split_text", [o])
                    state["final"] = SStr(info.fields[field])
                    return r
                r = I.try_repo_method(info, "split_at", [o])
                state["final"] = SStr(info.fields[field])
                return ("split", SStr(r.fields["text"]))
            r = I.try_repo_method(dom, method, args)
            state["final"] = SStr(info.fields[field])
            return r

        I = K.new_interp(profile, stubs={"%s::node" % infot: node_stub})
        I.mstubs = {("ItemStub", "as_text"): lambda I, r: Some(r), ("ItemStub", "as_cdata"): lambda I, r: Some(r),
                    ("ItemStub", "unwrap"): lambda I, r: r}
        s_probe, cs = K.sym_str("s", n)
        I.assume(sym.to_z3(And(cs, content_ok(s_probe, bad))))
        if has_arg:
            a_probe, ca = K.sym_str("a", m)
            I.assume(sym.to_z3(ca))

        results = []

        def wrapped(I):
            try:
                v = thunk(I)
            finally:
                pass
            return v
        # explore, capturing the final data per path
        paths = []
        stack = [[]]
        while stack:
            prefix = stack.pop()
            ex = kernel.Exec(I, prefix)
            I.ex = ex
            rec = None
            try:
                v = thunk(I)
                rec = dict(kind="ret", value=v, final=state.get("final"))
            except kernel.Panic as p:
                rec = dict(kind="panic", msg=p.msg, final=None)
            except kernel.Infeasible:
                rec = None
            if rec is not None:
                rec["pc"] = list(ex.pc)
                paths.append(rec)
            for k in range(len(prefix), len(ex.decisions)):
                if ex.decisions[k] is True:
                    stack.append(ex.decisions[:k] + [False])
            if len(paths) > 5000:
                raise kernel.Unsupported("too many paths")
        out["paths"] = len(paths)
        s0 = state["s0"]
        arg = state.get("arg", SStr())
        post = post_for(method, n, s0, o, c, arg, field, state["info"])
        verdict, info_, nq = K.decide(I, paths, post, timeout_s)
        out["queries"] = nq + I.feas_queries
        out["fns"] = K.fn_table(I)
        if verdict == "sat":
            mdl, p = info_
            out["status"] = "sat"
            out["witness"] = {"kind": kind, "method": method, "content": K.model_str(mdl, s0),
                              "offset": K.model_int(mdl, o) if o is not None else 0,
                              "count": K.model_int(mdl, c) if c is not None else 0,
                              "arg": K.model_str(mdl, arg), "profile": profile,
                              "model_outcome": p["kind"] if p["kind"] == "panic" else repr(p["value"])[:80],
                              "model_panic": p.get("msg")}
        elif verdict == "unknown":
            out["status"] = "unknown"
            out["error"] = info_
    except (kernel.Unsupported, nomsem.Unsupported) as e:
        out["status"] = "unsupported"
        out["error"] = str(e)
    except Exception:
        import traceback
        out["status"] = "unsupported"
        out["error"] = "exception: " + traceback.format_exc()[-700:]
    out["wall"] = time.time() - t0
    return out


def concrete_run(kind, method, content, offset, count, arg, profile="debug"):
    """the S-kernel on concrete values: -> dict(ok, err, value, data) or dict(panic)"""
    domt, infot, field, bad = KINDS[kind]

    def node_stub(I, text, parent, ctx):
        return K.mk_obj("ItemStub", None, text=SStr(text))
    I = K.new_interp(profile, stubs={"%s::node" % infot: node_stub})
    I.mstubs = {("ItemStub", "as_text"): lambda I, r: Some(r), ("ItemStub", "as_cdata"): lambda I, r: Some(r), ("ItemStub", "unwrap"): lambda I, r: r}
    state = {}

    def thunk(I):
        info = K.mk_obj(infot, K.INFO, **{field: kernel.from_pystr(content), "parent_id": NONE, "context": "ctx"})
        dom = K.mk_obj(domt, K.DOM, data=info)
        state["info"] = info
        args = {"length": [], "substring_data": [offset, count], "insert_data": [offset, kernel.from_pystr(arg)], "delete_data": [offset, count],
                "replace_data": [offset, count, kernel.from_pystr(arg)], "append_data": [kernel.from_pystr(arg)], "set_data": [kernel.from_pystr(arg)]}[method]
        return I.try_repo_method(dom, method, args)
    paths = I.explore(thunk)
    if len(paths) != 1:
        raise kernel.Unsupported("concrete run forked")
    p = paths[0]
    if p["kind"] == "panic":
        return {"panic": p["msg"]}
    v = p["value"]
    out = {"data": kernel.concrete_str(state["info"].fields[field])}
    if method == "length":
        out.update(ok=True, value=v)
    elif isinstance(v, Enum) and v.variant == "Ok":
        out.update(ok=True, value=kernel.concrete_str(v.fields[0]) if isinstance(v.fields[0], SStr) else None)
    else:
        out.update(ok=False, err=repr(v))
    return out


def translator_validation(rp, seed, n):
    """the interpreter with its std models must agree with the real DOM on concrete cases"""
    import random
    rng = random.Random(seed)
    alphabet = ["a", "b", "\u00e9", "\u3042", "\U0001F600", "\u0301", " ", "-", "]", ">", "x"]
    done = 0
    for _ in range(n):
        kind = rng.choice(list(KINDS))
        bad = KINDS[kind][3]
        content = "".join(ch for ch in (rng.choice(alphabet) for _ in range(rng.randrange(0, 6))) if ch not in bad)
        method = rng.choice(METHODS[:-1])
        offset = rng.choice([0, 1, 2, len(content), len(content) + 1, 2 ** 64 - 1, rng.randrange(0, 8)])
        count = rng.choice([0, 1, 2, len(content), 2 ** 64 - 1, 2 ** 64 - 3, rng.randrange(0, 8)])
        arg = "".join(ch for ch in (rng.choice(alphabet) for _ in range(rng.randrange(0, 3))) if ch not in bad)
        if kind == "comment" and (content.endswith("-") or arg.endswith("-")):
            continue
        pred = concrete_run(kind, method, content, offset, count, arg)
        real = rp.run({"op": "chardata", "kind": kind, "content": content, "method": method, "offset": offset, "count": count, "arg": arg})
        same = ("panic" in pred) == ("panic" in real)
        if same and "panic" not in pred:
            same = bool(pred.get("ok")) == bool(real.get("ok")) and pred.get("data") == real.get("data")
            if same and pred.get("ok") and method in ("length", "substring_data"):
                same = pred.get("value") == real.get("value")
            if same and not pred.get("ok"):
                same = ("IndexSizeErr" in pred.get("err", "")) == ("IndexSizeErr" in str(real.get("err")))
        if not same:
            raise common.Inconclusive("model mismatch on %s %s(%r, %d, %d, %r): interpreter %s, real %s" % (kind, method, content, offset, count, arg, pred, str(real)[:200]))
        done += 1
    return done


def spec_concrete(w):
    """DOM Level 1 on concrete values -> expected (ok, value-or-None, data, second)"""
    s = w["content"]
    n = len(s)
    o, c, a, m = w["offset"], w["count"], w["arg"], w["method"]
    if m == "length":
        return dict(ok=True, value=n, data=s)
    if m in ("substring_data", "insert_data", "delete_data", "replace_data", "split_text") and o > n:
        return dict(ok=False, err="IndexSizeErr", data=s)
    e = min(o + c, n)
    if m == "substring_data":
        return dict(ok=True, value=s[o:e], data=s)
    if m == "insert_data":
        return dict(ok=True, data=s[:o] + a + s[o:])
    if m == "delete_data":
        return dict(ok=True, data=s[:o] + s[e:])
    if m == "replace_data":
        return dict(ok=True, data=s[:o] + a + s[e:])
    if m == "append_data":
        return dict(ok=True, data=s + a)
    if m == "set_data":
        return dict(ok=True, data=a)
    if m == "split_text":
        return dict(ok=True, data=s[:o], value=s[o:])


def violates(w, real):
    """does the real outcome contradict DOM Level 1 on this concrete case?"""
    if "panic" in real or "died" in real:
        return True, "panics: %s" % str(real)[:80]
    exp = spec_concrete(w)
    if exp["ok"] != bool(real.get("ok")):
        if exp["ok"] and not real.get("ok") and "IndexSizeErr" not in str(real.get("err")) and w["method"] in ("insert_data", "replace_data", "append_data", "set_data", "delete_data"):
            return (w["method"] not in ("replace_data", "set_data") and real.get("data") != w["content"]), "edit refused (C15) but data changed"
        return True, "expected %s, real %s" % (exp, {k: real.get(k) for k in ("ok", "err", "value", "data")})
    if not exp["ok"]:
        if "IndexSizeErr" not in str(real.get("err")):
            return True, "expected IndexSizeErr, real %s" % real.get("err")
        return (real.get("data") != exp["data"]), "data changed by a failing call"
    if "value" in exp and real.get("value") != exp["value"]:
        return True, "expected value %r, real %r" % (exp["value"], real.get("value"))
    if real.get("data") != exp["data"]:
        return True, "expected data %r, real %r" % (exp["data"], real.get("data"))
    return False, ""


def main():
    args = common.args_for("C16")
    rep = common.Report(args)
    if args.replay:
        import json
        case = json.load(open(args.replay))
        if case.get("op") == "split_siblings":
            import c16sib
            return common.replay_generic(args, c16sib.judge)
        rp = replay.Replay(release=(case.get("profile") == "release"))
        q = dict(case)
        q["op"] = "chardata"
        real = rp.run(q)
        bad, why = violates(case, real)
        print("replay %s -> %s" % ({k: case[k] for k in ("kind", "method", "content", "offset", "count", "arg")}, real))
        if bad:
            print("VIOLATION property=C16 replay=%s" % args.replay)
            return 1
        print("does not reproduce on the current tree")
        return 0
    Kn = 3 if args.tier == "quick" else 4
    M = 1 if args.tier == "quick" else 2
    timeout_s = 120 if args.tier == "quick" else 900
    rep.bounds = {"content_len": "0..%d scalar values, every Unicode Char the factories accept" % Kn, "offset_count": "any 64-bit value",
                  "argument_len": "0..%d" % M, "profiles": ["debug (overflow panics)", "release (wraps)"],
                  "outside": "longer contents; entity references inside the merged-text view; split_text under an attribute parent"}
    rep.assumptions += [
        "std models of engine/sx/kstd.py (chars/collect/skip/take/split_off/drain/append, saturating_*, usize arithmetic with overflow per profile)",
        "the `check` closures call the real nom productions through the S-grammar (content, comment, cdsect)",
        "info::Xml*::node (item construction) is stubbed in split_at; node content is constrained to what the DOM factories accept",
        "strings are sequences of scalar values; UTF-8 encoding by String is trusted",
    ]
    known_open, _ = common.known_findings("C16")
    try:
        rp = replay.Replay()
    except replay.ReplayError as e:
        rep.inconclusive.append(str(e))
        return rep.finish()
    try:
        rep.tv_cases = translator_validation(rp, args.seed, 60 if args.tier == "quick" else 300)
        rep.extra["translator_validation"] = "%d concrete operations: S-kernel (std models) == real DOM through the replay driver" % rep.tv_cases
    except (common.Inconclusive, kernel.Unsupported) as e:
        rep.inconclusive.append(str(e))
        return rep.finish()
    jobs = []
    for kind in KINDS:
        for method in METHODS:
            if method == "split_text" and kind == "comment":
                continue
            for profile in ("debug", "release"):
                for n in range(0, Kn + 1):
                    ms = range(0, M + 1) if method in ("insert_data", "replace_data", "append_data", "set_data") else [0]
                    for m in ms:
                        jobs.append((kind, method, n, m, profile, timeout_s))
    # the merged-text view (XmlExpandedText): read-only operations
    for method in ("length", "substring_data"):
        for profile in ("debug", "release"):
            for n in range(0, Kn + 2):
                jobs.append(("expanded", method, n, 0, profile, timeout_s))
    with mp.Pool(args.jobs) as pool:
        results = pool.map(work, jobs, chunksize=1)
    rp_rel = None
    reported = set()
    for res in results:
        kind, method, n, m, profile = res["job"]
        oid = "C16.s.%s.%s.%s.n%d%s" % (method, kind, profile, n, (".a%d" % m) if m else "")
        rep.queries += res["queries"]
        rep.extra["paths"] = rep.extra.get("paths", 0) + res["paths"]
        rep.functions.update(res.get("fns", {}))
        if res["status"] in ("unsupported", "unknown"):
            rep.obligation(oid, "inconclusive", error=res["error"])
            rep.inconclusive.append("%s: %s" % (oid, str(res["error"])[:300]))
            continue
        if res["status"] == "holds":
            rep.obligation(oid, "holds", reach="sat" if res["paths"] else "unsat", paths=res["paths"], wall_s=round(res["wall"], 2))
            continue
        w = res["witness"]
        if profile == "release":
            if rp_rel is None:
                rp_rel = replay.Replay(release=True)
            r = rp_rel
        else:
            r = rp
        q = dict(w)
        q["op"] = "chardata"
        real = r.run(q)
        rep.replays += 1
        bad, why = violates(w, real)
        if not bad:
            rep.obligation(oid, "inconclusive", witness=w)
            rep.inconclusive.append("%s: model does not reproduce: %s -> %s" % (oid, w, str(real)[:160]))
            continue
        # one finding per (method, kind of failure) is enough; every witness is still listed in the evidence
        cls = "%s:%s" % (method, "panic" if ("panic" in real or "died" in real) else "semantics")
        kf = [k for k in known_open if k.get("class") == cls]
        if kf:
            rep.obligation(oid, "known-finding", witness=w)
            if cls not in reported:
                reported.add(cls)
                rep.known_finding(kf[0], "%s class=%s witness=%s" % (kf[0].get("what", ""), cls, {k: w[k] for k in ("kind", "content", "offset", "count", "arg", "profile")}))
            continue
        rep.obligation(oid, "violated", witness=w, real=str(real)[:200])
        key = (method, kind, cls)
        if key not in reported:
            reported.add(key)
            w2 = dict(w)
            w2["property"] = "C16"
            rep.violation(oid, w2, "%s on a %s node with content %s offset %d count %d arg %s (%s): %s" % (
                method, kind, show(w["content"]), w["offset"], w["count"], show(w["arg"]), profile, why))
        else:
            rep.violations.append((oid, None, why))
    for res in results[:6]:
        rep.samples.append({"obligation": res["job"], "paths": res["paths"]})
    # split_text: the sibling insertion (item graph of one element), one step from any valid state
    try:
        import c16sib
        c16sib.obligations(rep, rp, args.tier, args.jobs)
    except Exception as e:  # noqa
        rep.inconclusive.append("split_text siblings: %s: %s" % (type(e).__name__, e))
    rp.close()
    if rp_rel:
        rp_rel.close()
    return rep.finish()


if __name__ == "__main__":
    sys.exit(main())
