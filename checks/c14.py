"""C14 (order-vector kernel): document-order keys after one edit step from an arbitrary valid state.

info::DocumentOrder::{get, insert_after, insert_before, push, remove} and the HasContext methods that drive it
(init_order, order, set_order_after, set_order_before, clear_order, including the order_cache/order_version cache)
are executed symbolically by the S-kernel from source.  Pre-state: k attached items (k <= 2 quick / 3 thorough) with
SYMBOLIC pairwise-distinct non-zero ids in an arbitrary valid vector, one detached item, caches either stale or
correct, any version.  One operation with a symbolic anchor id and a symbolic choice of the item it is applied to.
Post: the keys reported by order() are 1..n in exactly the specified sequence (hence non-zero, pairwise distinct and
strictly increasing along it), a failing call changes nothing, and the cache invariant holds again - one inductive
step, so histories of any length are covered for this invariant within k.
"""
import sys
import time
import json
import multiprocessing as mp
import z3

import common
from common import show
import kharness as K
from sx import kernel, kstd, sym, replay, nomsem
from sx.kernel import Enum, Obj, Ok, Err, Some, NONE, SStr, SVec
from sx.sym import And, Or, Not

OPS = ["set_order_after", "set_order_before", "clear_order", "init_order"]
# XmlItem dispatches the order operations to the wrapped item; every variant except Unparsed (which goes through its entity)
VARIANTS = {"Attribute": "XmlAttribute", "CData": "XmlCData", "CharReference": "XmlCharReference", "Comment": "XmlComment",
            "DeclarationAttList": "XmlDeclarationAttList", "Document": "XmlDocument", "DocumentType": "XmlDocumentTypeDeclaration",
            "Element": "XmlElement", "Entity": "XmlEntity", "Namespace": "XmlNamespace", "Notation": "XmlNotation",
            "PI": "XmlProcessingInstruction", "Text": "XmlText", "Unexpanded": "XmlUnexpandedEntityReference"}


def build(I, k, variant=None):
    """k attached items + 1 detached; returns (items, ordering, constraints)"""
    ids = [z3.BitVec("id%d" % i, 64) for i in range(k + 1)]
    version = z3.BitVec("version", 64)
    cons = [z3.Distinct(*ids)] + [x != 0 for x in ids] + [z3.ULT(version, 1 << 62)]
    ordering = K.mk_obj("DocumentOrder", K.INFO, order=SVec(), version=version)
    items = []
    for i in range(k + 1):
        cache = z3.BitVec("cache%d" % i, 64)
        cv = z3.BitVec("cver%d" % i, 64)
        info = K.mk_obj("ContextInfo", K.INFO, id=ids[i], order_cache=cache, order_version=cv)
        ctx = K.mk_obj("Context", K.INFO, info=info, ordering=ordering)
        item = K.mk_obj(VARIANTS.get(variant, "XmlElement"), K.INFO, context=(Some(ctx) if variant == "Document" else ctx))
        if variant is not None:
            item = K.mk_enum("XmlItem", K.INFO, variant, item)
        items.append(item)
        true_key = (i + 1) if i < k else 0
        cons.append(z3.ULE(cv, version))
        cons.append(z3.Implies(cv == version, cache == true_key))
        if i < k:
            ordering.fields["order"].append(info)
    return items, ordering, ids, z3.And(*cons)


def expected(I, op, k, m, anchor, ids):
    """spec: -> (new sequence of item indices, call succeeds?)"""
    seq = list(range(k))
    if op == "clear_order":
        return [x for x in seq if x != m], True
    if op == "init_order":
        return seq + [m], True
    # anchor: which attached item has this id? (forks)
    a = None
    for i in seq:
        if I.truth(anchor == ids[i]):
            a = i
            break
    if a is None or a == m:
        return seq, False
    rest = [x for x in seq if x != m]
    p = rest.index(a)
    if op == "set_order_after":
        rest.insert(p + 1, m)
    else:
        rest.insert(p, m)
    return rest, True


def work(job):
    op, k, m, timeout_s = job[:4]
    variant = job[4] if len(job) > 4 else None
    out = {"job": job[:3] + ((variant,) if variant else ()), "status": "holds", "paths": 0, "queries": 0, "error": None}
    t0 = time.time()
    try:
        I = K.new_interp("debug")
        anchor = z3.BitVec("anchor", 64)
        _, _, _, cons = build(I, k, variant)
        I.assume(cons)

        def thunk(I):
            items, ordering, ids, _ = build(I, k, variant)
            args = [anchor] if op in ("set_order_after", "set_order_before") else []
            r = I.try_repo_method(items[m], op, args)
            after = [I.try_repo_method(it, "order", []) for it in items]
            seq, ok = expected(I, op, k, m, anchor, ids)
            inv = []
            for it in items:
                inner = it.fields[0] if isinstance(it, Enum) else it
                cx = inner.fields["context"]
                if isinstance(cx, Enum):
                    cx = cx.fields[0]
                info = cx.fields["info"]
                inv.append((info.fields["order_cache"], info.fields["order_version"]))
            return (r, after, seq, ok, ordering.fields["version"], inv, len(ordering.fields["order"]))
        if op == "init_order" and m < k:
            return out       # init_order is only called on items that are not in the vector
        paths = I.explore(thunk)
        out["paths"] = len(paths)

        def post(p):
            if p["kind"] == "panic":
                return False
            r, after, seq, ok, version, inv, n = p["value"]
            conds = []
            if op in ("set_order_after", "set_order_before"):
                conds.append(isinstance(r, Enum) and (r.variant == "Some") == ok)
            # keys: item seq[j] has key j+1, every other item 0
            for i in range(k + 1):
                want = (seq.index(i) + 1) if i in seq else 0
                conds.append(kstd.v_eq(I, after[i], want))
            if isinstance(r, Enum) and r.variant == "Some" and ok:
                conds.append(kstd.v_eq(I, r.fields[0], seq.index(m) + 1))
            conds.append(n == len(seq))
            # cache invariant re-established
            for i, (cache, cv) in enumerate(inv):
                want = (seq.index(i) + 1) if i in seq else 0
                conds.append(z3.ULE(kernel.to_bv(cv), kernel.to_bv(version)))
                conds.append(z3.Implies(kernel.to_bv(cv) == kernel.to_bv(version), kernel.to_bv(cache) == want))
            return And(*conds)
        verdict, info, nq = K.decide(I, paths, post, timeout_s)
        out["queries"] = nq + I.feas_queries
        out["fns"] = K.fn_table(I)
        if verdict == "sat":
            mdl, p = info
            ids = [z3.BitVec("id%d" % i, 64) for i in range(k + 1)]
            idv = [K.model_int(mdl, x) for x in ids]
            av = K.model_int(mdl, anchor)
            out["status"] = "sat"
            w = {"op": op, "k": k, "mover": m, "anchor_index": idv.index(av) if av in idv else None, "variant": variant}
            if p["kind"] == "panic":
                w["model"] = "panic: " + p["msg"]
            else:
                r, after, seq, ok, version, inv, n = p["value"]
                w["model_keys"] = [K.model_int(mdl, x) for x in after]
                w["spec_sequence"] = seq
                w["spec_ok"] = ok
                w["model_result"] = repr(r)[:40]
            out["witness"] = w
        elif verdict == "unknown":
            out["status"] = "unknown"
            out["error"] = info
    except (kernel.Unsupported, nomsem.Unsupported) as e:
        out["status"] = "unsupported"
        out["error"] = str(e)
    except Exception:
        import traceback
        out["status"] = "unsupported"
        out["error"] = "exception: " + traceback.format_exc()[-700:]
    out["wall"] = time.time() - t0
    return out


def translator_validation(rp, seed, n):
    """the interpreter on concrete vectors must agree with the compiled DocumentOrder (verif hook)"""
    import random
    rng = random.Random(seed)
    done = 0
    for _ in range(n):
        k = rng.randrange(1, 4)
        op = rng.choice(OPS)
        m = rng.randrange(0, k + 1)
        if op == "init_order" and m < k:
            m = k
        a = rng.choice(list(range(k)) + [None])
        I = K.new_interp("debug")

        def thunk(I):
            ordering = K.mk_obj("DocumentOrder", K.INFO, order=SVec(), version=0)
            items = []
            for i in range(k + 1):
                info = K.mk_obj("ContextInfo", K.INFO, id=i + 1, order_cache=(i + 1 if i < k else 0), order_version=0)
                it = K.mk_obj("XmlElement", K.INFO, context=K.mk_obj("Context", K.INFO, info=info, ordering=ordering))
                items.append(it)
                if i < k:
                    ordering.fields["order"].append(info)
            args = [(a + 1) if a is not None else 9999] if op in ("set_order_after", "set_order_before") else []
            I.try_repo_method(items[m], op, args)
            return [I.try_repo_method(it, "order", []) for it in items]
        paths = I.explore(thunk)
        if len(paths) != 1 or paths[0]["kind"] != "ret":
            raise common.Inconclusive("concrete order run: %s" % paths[:1])
        pred = [int(x) for x in paths[0]["value"]]
        rr = rp.run({"op": "order", "k": k, "what": op, "mover": m, "anchor": a})
        if rr.get("keys") != pred:
            raise common.Inconclusive("model mismatch on %s k=%d mover=%d anchor=%s: interpreter %s, real %s" % (op, k, m, a, pred, rr))
        done += 1
    return done


def replay_case(rp, w):
    """through the DOM: <r> with k element children c0..; the operation is realised by insert_before / remove_child /
    append_child on them; the observed order is the order in which /r/* returns the children (sorted by order keys)"""
    if w.get("variant"):
        # dispatch through XmlItem: replayed through the DOM (insert_before) for the node kinds the DOM can create
        if w["variant"] not in ("CData", "Comment", "Element") or w["op"] != "set_order_before" or w.get("anchor_index") is None:
            return {"unreplayable": True}
        rr = rp.run({"op": "dom_order", "variant": w["variant"], "mover": w["mover"], "anchor": w["anchor_index"]})
        rr["violates"] = bool(rr.get("ok")) and rr.get("child_list") != rr.get("by_order_keys")
        rr["why"] = "children are %s but the order keys sort them as %s" % (rr.get("child_list"), rr.get("by_order_keys"))
        return rr
    rr = rp.run({"op": "order", "k": w["k"], "what": w["op"], "mover": w["mover"], "anchor": w.get("anchor_index")})
    if "keys" in rr and "spec_sequence" in w:
        seq = w["spec_sequence"]
        want = [(seq.index(i) + 1) if i in seq else 0 for i in range(w["k"] + 1)]
        rr["expected_keys"] = want
        rr["violates"] = rr["keys"] != want or (w["op"] in ("set_order_after", "set_order_before") and (rr["result"] is not None) != w["spec_ok"])
        rr["why"] = "keys %s, specified %s (call result %s)" % (rr["keys"], want, rr["result"])
    elif "panic" in rr:
        rr["violates"] = True
        rr["why"] = str(rr)
    return rr


def xmlitem_method_has_caller(op):
    """is the private XmlItem::<op> called anywhere in info/dom (other than from a function of the same name)?"""
    d = K.dump()
    hits = []

    def walk(v, fn_name):
        if isinstance(v, dict):
            if v.get("k") == "mcall" and v.get("method") == op and fn_name != op:
                hits.append(fn_name)
            for x in v.values():
                walk(x, fn_name)
        elif isinstance(v, list):
            for x in v:
                walk(x, fn_name)
    for f, items in d.items.items():
        for it in items:
            if "body" in it and "name" in it:
                walk(it["body"], it["name"])
    return bool(hits)


def main():
    args = common.args_for("C14")
    rep = common.Report(args)
    try:
        rp = replay.Replay()
    except replay.ReplayError as e:
        rep.inconclusive.append(str(e))
        return rep.finish()
    if args.replay:
        w = json.load(open(args.replay))
        if w.get("op") == "mutate":
            import ctree
            rp.close()
            return common.replay_generic(args, ctree.judge)
        rr = replay_case(rp, w)
        print("replay %s -> %s" % (w, rr))
        if rr.get("violates"):
            print("VIOLATION property=C14 replay=%s" % args.replay)
            return 1
        print("does not reproduce on the current tree")
        return 0
    kmax = 2 if args.tier == "quick" else 3
    timeout_s = 120 if args.tier == "quick" else 900
    rep.bounds = {"attached_items": "1..%d with symbolic distinct non-zero ids, plus one detached item" % kmax, "anchor": "any 64-bit id",
                  "version_and_caches": "symbolic, constrained only by the cache invariant",
                  "outside": "which anchor the tree mutators choose (HasChildren::append / insert_before, attributes, subtree moves) and therefore the pre-order relation itself and query(edited) = query(re-parsed): item graph"}
    rep.assumptions += ["Weak::upgrade always succeeds (every entry's item is alive)", "the vector is valid before the step: attached infos in order, distinct non-zero ids, caches stale or correct",
                        "std models of engine/sx/kstd.py (Vec::insert/remove/push, Iterator::position)"]
    try:
        rep.tv_cases = translator_validation(rp, args.seed, 40 if args.tier == "quick" else 200)
        rep.extra["translator_validation"] = "%d concrete order-vector steps: S-kernel == compiled DocumentOrder through the verif hook" % rep.tv_cases
    except (common.Inconclusive, kernel.Unsupported) as e:
        rep.inconclusive.append(str(e))
        return rep.finish()
    jobs = []
    for k in range(1, kmax + 1):
        for op in OPS:
            for m in range(0, k + 1):
                jobs.append((op, k, m, timeout_s))
    # the per-variant dispatch tables of XmlItem (k = 2: every item is wrapped in the variant).  XmlItem's methods are private:
    # a table nobody calls is dead code and says nothing about the keys a caller can observe
    live = [op for op in ("set_order_after", "set_order_before", "clear_order") if xmlitem_method_has_caller(op)]
    rep.extra["xmlitem_dispatch_tables_checked"] = live
    rep.extra["xmlitem_dispatch_tables_without_caller"] = [op for op in ("set_order_after", "set_order_before", "clear_order") if op not in live]
    for variant in VARIANTS:
        for op in live:
            for m in (0, 2):
                jobs.append((op, 2, m, timeout_s, variant))
    with mp.Pool(args.jobs) as pool:
        results = pool.map(work, jobs, chunksize=1)
    reported = set()
    for res in results:
        op, k, m = res["job"][:3]
        var = res["job"][3] if len(res["job"]) > 3 else None
        oid = "C14.s.%s.k%d.%s%s" % (op, k, "detached" if m == k else "item%d" % m, (".XmlItem::" + var) if var else "")
        rep.queries += res["queries"]
        rep.extra["paths"] = rep.extra.get("paths", 0) + res["paths"]
        rep.functions.update(res.get("fns", {}))
        if res["status"] in ("unsupported", "unknown"):
            rep.obligation(oid, "inconclusive", error=res["error"])
            rep.inconclusive.append("%s: %s" % (oid, str(res["error"])[:300]))
            continue
        if res["status"] == "holds":
            if res["paths"]:
                rep.obligation(oid, "holds", reach="sat", paths=res["paths"], wall_s=round(res.get("wall", 0), 2))
            continue
        w = res["witness"]
        rr = replay_case(rp, w)
        rep.replays += 1
        if rr.get("violates"):
            rep.obligation(oid, "violated", witness=w, real=rr)
            if op not in reported:
                reported.add(op)
                w["property"] = "C14"
                rep.violation(oid, w, "%s on item %s with anchor %s of %d children: %s" % (op, w["mover"], w.get("anchor_index"), k, rr.get("why")))
            else:
                rep.violations.append((oid, None, ""))
        else:
            rep.obligation(oid, "inconclusive", witness=w)
            rep.inconclusive.append("%s: model witness %s does not reproduce through the DOM: %s" % (oid, w, str(rr)[:200]))
    rep.samples += [{"obligation": r["job"], "paths": r["paths"]} for r in results[:6]]
    # which anchor the tree mutators pick: one child mutator on an element of a bounded tree, keys along the pre-order walk
    try:
        import ctree
        ctree.obligations(rep, rp, "C14", args.tier, args.jobs)
    except Exception as e:  # noqa
        rep.inconclusive.append("tree step: %s: %s" % (type(e).__name__, e))
    rp.close()
    return rep.finish()


if __name__ == "__main__":
    sys.exit(main())
