"""C08 (grammar level + predicate rule): equivalent spellings and precedence of XPath expressions.

A. language: for every string x of <= N scalar values (and template instantiations with long keywords)
     strict XPath 1.0 reference accepts x  =>  xml_xpath::expr::parse consumes all of x       (every spelling the
     Recommendation allows - optional white space between tokens, abbreviations, node-type tests at the start of a
     path, redundant parentheses - is accepted)
     parse consumes all of x  =>  lenient reference accepts x                                 (nothing else is)
B. operator sites: every binary-operator token of the grammar sits in the production of its XPath precedence level,
   each level's operands are parsed by the next level, every site is reachable (solver), unary minus wraps union.
C. [n] == [position() = n]: eval_predicate executed by the S-kernel with the predicate value and the context position
   symbolic.
"""
import sys
import time
import json
import multiprocessing as mp
import z3

import common
from common import show
import kharness as K
import totality
import xpathref
from sx import nomsem, sym, active, replay, kernel, kstd
from sx.kernel import Enum, Obj, Ok, Err, SStr, SVec, F64
from sx.sym import And, Or, Not

XP = totality.XP
KNOWN = ["operator-name-boundary"]
LEVEL_OF = {"or_expr": 1, "and_expr": 2, "equality_expr": 3, "relation_expr": 4, "additive_expr": 5, "multiplicative_expr": 6,
            "unary_expr": 7, "union_expr": 8, "path_expr": 9}


def work(job):
    kind, spec, known, timeout_s, seed = job
    out = {"job": (kind, str(spec)), "queries": 0, "solver_s": 0.0, "results": [], "error": None}
    t0 = time.time()
    try:
        g = totality.xpath_grammar()
        inp = sym.Input.symbolic(spec) if kind == "free" else sym.Input.template(spec)
        run = nomsem.Run(g, inp)
        acc = run.accepts_all(g.production("parse", XP))
        strict = xpathref.XPathRef(inp).expression()
        lenient = xpathref.XPathRef(inp, relax=known, outer_ws=True).expression()
        lenient_no = {k: xpathref.XPathRef(inp, relax=[x for x in known if x != k], outer_ws=True).expression() for k in known}
        wf = sym.to_z3(inp.wellformed())

        def ask(cond, tag):
            s = sym.solver(seed=seed)
            s.set("timeout", int(timeout_s * 1000))
            s.add(wf, sym.to_z3(cond))
            t = time.time()
            r = s.check()
            out["queries"] += 1
            out["solver_s"] += time.time() - t
            res = {"q": tag, "r": str(r)}
            if r == z3.sat:
                res["witness"] = inp.from_model(s.model())
            out["results"].append(res)
            return res
        r = ask(strict, "reach")
        out["reach"] = r["r"]
        out["sample"] = r.get("witness")
        out["results"].pop()
        ask(And(strict, Not(acc)), "must-accept")
        ask(And(acc, Not(lenient)), "must-reject")
        for k in known:
            ask(And(acc, lenient, Not(lenient_no[k])), "known:" + k)
        out["fns"] = common.fn_table(g)
    except nomsem.Unsupported as e:
        out["error"] = "unsupported: %s" % e
    except Exception:
        import traceback
        out["error"] = "exception: " + traceback.format_exc()[-800:]
    out["wall"] = time.time() - t0
    return out


def operator_sites(rep, g):
    """static structure + solver reachability of every operator site"""
    bad = []
    sites = []
    for pname, lv in LEVEL_OF.items():
        if lv >= 9:
            continue
        ref = g.production(pname, XP)
        body = g.body_of(ref)
        tags = active.find_nodes(g, ref, lambda n: n.kind == "tag" and n.arg in xpathref.LEVELS)
        refs = active.find_nodes(g, ref, lambda n: n.kind == "ref" and n.arg[1] in LEVEL_OF)
        for t in tags:
            if pname == "unary_expr" and t.arg == "-":
                continue
            sites.append((pname, t))
            if xpathref.LEVELS[t.arg] != lv:
                bad.append("operator %r is parsed by %s (level %d), XPath 1.0 gives it level %d" % (t.arg, pname, lv, xpathref.LEVELS[t.arg]))
        want = {v: k for k, v in LEVEL_OF.items()}[lv + 1]
        for r in refs:
            if r.arg[1] != want:
                bad.append("%s parses its operands with %s, expected %s" % (pname, r.arg[1], want))
        if not refs:
            bad.append("%s has no operand production" % pname)
        have = sorted(t.arg for t in tags if not (pname == "unary_expr"))
        need = sorted(op for op, l in xpathref.LEVELS.items() if l == lv)
        if lv != 7 and have != need:
            bad.append("%s recognises operators %s, XPath 1.0 level %d has %s" % (pname, have, lv, need))
    rep.obligation("C08.g.operator-levels", "violated" if bad else "holds", reach="sat", detail=bad, sites=len(sites))
    return bad, sites


def site_reach(job):
    pname, tag, timeout_s = job
    g = totality.xpath_grammar()
    ref = g.production(pname, XP)
    g.body_of(ref)
    t = [n for n in active.find_nodes(g, ref, lambda n: n.kind == "tag" and n.arg == tag)][0]
    for L in (3, 5, 7):
        inp = sym.Input.symbolic(L)
        run = nomsem.Run(g, inp)
        root = g.production("parse", XP)
        acc = run.accepts_all(root)
        act = active.activation(run, root, acc)
        conds = [a for (nid, p), (n, a) in act.items() if nid == t.id]
        s = sym.solver()
        s.set("timeout", int(timeout_s * 1000))
        s.add(sym.to_z3(inp.wellformed()), sym.to_z3(Or(*conds)))
        if s.check() == z3.sat:
            return (pname, tag, inp.from_model(s.model()))
    return (pname, tag, None)


def predicate_rule(rep, timeout_s):
    """eval_predicate: a number n selects the node whose position equals n"""
    oid = "C08.s.numeric-predicate"
    try:
        I = K.new_interp("debug")
        I.files_in_scope = (K.XFUNC, K.XMODEL, K.XEVAL)
        v = z3.FP("v", F64)
        pos = z3.BitVec("position", 64)
        I.assume(z3.And(z3.UGE(pos, 1), z3.ULE(pos, 1 << 53)))
        I.stubs["eval_expr"] = lambda I, e, n, c: Ok(K.mk_enum("Value", K.XMODEL, "Number", v))
        I.mstubs = {("Context", "get_position"): lambda I, r: pos}
        fn = I.dump.fns[(K.XEVAL, "eval_predicate")]

        def thunk(I):
            return I.call_fn(K.XEVAL, fn, ["expr", "node", K.mk_obj("Context", None)])
        paths = I.explore(thunk)
        want = z3.fpEQ(v, z3.fpToFPUnsigned(kernel.RNE, pos, F64))

        def post(p):
            if p["kind"] == "panic":
                return False
            r = p["value"]
            if not (isinstance(r, Enum) and r.variant == "Ok"):
                return False
            return sym.Iff(r.fields[0], want)
        verdict, info, nq = K.decide(I, paths, post, timeout_s)
        rep.queries += nq + I.feas_queries
        rep.functions.update(K.fn_table(I))
        if verdict == "holds":
            rep.obligation(oid, "holds", reach="sat", paths=len(paths))
            return None
        if verdict == "unknown":
            rep.obligation(oid, "inconclusive")
            rep.inconclusive.append("%s: %s" % (oid, info))
            return None
        mdl, p = info
        # prefer a witness that a small document can realise
        I.base.append(z3.ULE(pos, 4))
        verdict2, info2, nq2 = K.decide(I, paths, post, timeout_s)
        rep.queries += nq2
        if verdict2 == "sat":
            mdl, p = info2
        return {"v": K.model_f64(mdl, v), "position": K.model_int(mdl, pos)}
    except kernel.Unsupported as e:
        rep.obligation(oid, "inconclusive", error=str(e))
        rep.inconclusive.append("%s: %s" % (oid, e))
        return None


def templates(tier):
    h = 3 if tier == "quick" else 4
    T = [("axis", ["ancestor-or-self", 2, "::", h]), ("axis2", ["following-sibling ::", h]), ("pi-lit", ["processing-instruction", h, ")"]),
         ("nodetype", ["comment", h]), ("nodetype-path", ["text()", h]), ("pred", ["a[", h, "]"]), ("call", ["f(", h, ")"]),
         ("ops", ["1", 3, "2", 3, "3"]), ("paren", ["(", h, ")/b"]), ("abbr", ["a", 2, "b", 2, "c"]),
         ("opnames", ["a ", 3, " b ", 3, " c"])]
    return T


def main():
    args = common.args_for("C08")
    rep = common.Report(args)
    try:
        rp = replay.Replay()
    except replay.ReplayError as e:
        rep.inconclusive.append(str(e))
        return rep.finish()
    if args.replay:
        case = json.load(open(args.replay))
        if case.get("op") == "queries":
            rr = rp.run({k: v for k, v in case.items() if k in ("op", "doc", "exprs")})
            print("replay %s -> %s" % (case.get("exprs"), rr.get("fresh")))
            fr = rr.get("fresh") or [None, 1]
            if "panic" in rr or "died" in rr or fr[0] != fr[1]:
                print("VIOLATION property=C08 replay=%s" % args.replay)
                return 1
            print("does not reproduce on the current tree")
            return 0
        rr = rp.run({k: v for k, v in case.items() if k in ("op", "input", "doc")})
        print("replay %s -> %s" % (case.get("input"), rr))
        if case.get("expect") == "accepted":
            bad = not (rr.get("ok") and rr.get("end") == len(case["input"]))
        elif case.get("expect") == "rejected":
            bad = bool(rr.get("ok")) and rr.get("end") == len(case["input"])
        else:
            bad = rr.get("value") != case.get("expect_value")
        if bad:
            print("VIOLATION property=C08 replay=%s" % args.replay)
            return 1
        print("does not reproduce on the current tree")
        return 0
    N = 6 if args.tier == "quick" else 8
    timeout_s = 300 if args.tier == "quick" else 2400
    rep.bounds = {"free_mode_max_len": N, "templates": [t[0] for t in templates(args.tier)], "outside": "equalities between evaluator runs on whole documents beyond the per-abbreviation term equivalence of C08.s.abbrev; left-associativity of the evaluator's folds; expressions longer than the bounds"}
    rep.assumptions += ["reference grammar spec/xpathref.py (scannerless reading of XPath 1.0 section 3 with the longest-token rule); strict = no white space around the whole expression, lenient = with",
                        "nom semantics as in C01/C02"]
    known_open, _ = common.known_findings("C08")
    known = [k["class"] for k in known_open if k.get("class") in KNOWN]
    g = totality.xpath_grammar()
    # oracle self-test
    corpus = json.load(open(common.ROOT + "/spec/corpus/xpath_exprs.json"))
    badl = [s for s in corpus["valid"] if not xpathref.accepts(s)] + [s for s in corpus["invalid"] if xpathref.accepts(s, outer_ws=True)]
    if badl:
        rep.inconclusive.append("XPath reference fails its corpus on %r" % badl[:3])
        return rep.finish()
    # translator validation
    n_tv = 0
    root = g.production("parse", XP)
    for s in corpus["valid"] + corpus["invalid"] + corpus.get("gap", []):
        e = nomsem.concrete_end(g, root, s)
        r = rp.run({"op": "xpath_parse", "input": s})
        real = r.get("end") if r.get("ok") else None
        if e != real:
            rep.inconclusive.append("translator mismatch on %r: model %s real %s" % (s, e, r))
            return rep.finish()
        n_tv += 1
    rep.tv_cases = n_tv
    bad, sites = operator_sites(rep, g)
    if bad:
        rep.violation("C08.g.operator-levels", {"op": "xpath_parse", "input": "1 + 2 * 3", "detail": bad, "property": "C08"}, "; ".join(bad))
    jobs = [("free", L, known, timeout_s, args.seed) for L in range(0, N + 1)] + [("tpl:" + n, p, known, timeout_s, args.seed) for n, p in templates(args.tier)]
    jobs.sort(key=lambda j: -(j[1] if isinstance(j[1], int) else 5))
    with mp.Pool(min(args.jobs, len(jobs))) as pool:
        results = pool.map(work, jobs, chunksize=1)
        reach = pool.map(site_reach, [(p, t.arg, timeout_s) for p, t in sites], chunksize=1)
    for pname, tag, w in reach:
        oid = "C08.g.site-reach.%s[%s]" % (pname, tag)
        rep.queries += 1
        if w is None:
            rep.obligation(oid, "inconclusive")
            rep.inconclusive.append("%s: no accepted input of <= 7 characters uses this operator site" % oid)
        else:
            rep.obligation(oid, "holds", reach="sat", sample=w)
    seen_known = {}
    for res in results:
        kind, spec = res["job"]
        oid = "C08.g.%s" % (("len%s" % spec) if kind == "free" else kind)
        rep.queries += res["queries"]
        rep.solver_s += res["solver_s"]
        if res["error"]:
            rep.obligation(oid, "inconclusive", error=res["error"])
            rep.inconclusive.append("%s: %s" % (oid, res["error"][:300]))
            continue
        rep.functions.update(res.get("fns", {}))
        status = "holds"
        for r in res["results"]:
            if r["r"] == "unknown":
                status = "inconclusive"
                rep.inconclusive.append("%s/%s: solver unknown/timeout" % (oid, r["q"]))
                continue
            if r["r"] != "sat":
                continue
            w = r["witness"]
            rr = rp.run({"op": "xpath_parse", "input": w})
            rep.replays += 1
            accepted = bool(rr.get("ok")) and rr.get("end") == len(w)
            if r["q"] == "must-accept":
                if accepted:
                    status = "inconclusive"
                    rep.inconclusive.append("%s: model does not reproduce: %s is accepted" % (oid, show(w)))
                else:
                    status = "violated"
                    rep.violation(oid + "/must-accept", {"op": "xpath_parse", "input": w, "expect": "accepted", "property": "C08"},
                                  "the XPath 1.0 expression %s is not accepted: %s" % (show(w), str(rr)[:100]))
            else:
                if not accepted:
                    status = "inconclusive"
                    rep.inconclusive.append("%s: model does not reproduce: %s is rejected" % (oid, show(w)))
                elif r["q"].startswith("known:"):
                    seen_known.setdefault(r["q"][6:], w)
                else:
                    status = "violated"
                    rep.violation(oid + "/must-reject", {"op": "xpath_parse", "input": w, "expect": "rejected", "property": "C08"},
                                  "%s is accepted but is not an XPath 1.0 expression" % show(w))
        rep.obligation(oid, status, reach=res.get("reach"), sample=res.get("sample"), wall_s=round(res["wall"], 2), queries=res["queries"])
        if res.get("sample"):
            rep.samples.append({"obligation": oid, "valid_expression_of_this_shape": res["sample"]})
    for k in known_open:
        if k.get("class") in seen_known:
            rep.known_finding(k, "%s class=%s witness=%s" % (k.get("what", ""), k["class"], show(seen_known[k["class"]])))
    # abbreviated steps against their expansions, at evaluation time
    try:
        import c08abbr
        c08abbr.obligations(rep, rp)
    except Exception as e:  # noqa
        rep.inconclusive.append("abbreviations: %s: %s" % (type(e).__name__, e))
    w = predicate_rule(rep, timeout_s)
    if w is not None:
        # replay: a document with `position` children, predicate [v]
        from c09 import lit_number
        n = min(w["position"], 4)
        doc = "<r>" + "".join("<a/>" for _ in range(max(n, 1))) + "</r>"
        e1 = "count(/r/a[%s])" % lit_number(w["v"])
        e2 = "count(/r/a[position() = %s])" % lit_number(w["v"])
        r1, r2 = rp.run({"op": "query", "doc": doc, "input": e1}), rp.run({"op": "query", "doc": doc, "input": e2})
        rep.replays += 2
        if r1.get("value") != r2.get("value"):
            rep.obligation("C08.s.numeric-predicate", "violated", witness=w)
            rep.violation("C08.s.numeric-predicate", {"op": "query", "doc": doc, "input": e1, "expect_value": r2.get("value"), "property": "C08"},
                          "%s = %s but %s = %s on %s" % (e1, r1.get("value"), e2, r2.get("value"), doc))
        else:
            rep.obligation("C08.s.numeric-predicate", "inconclusive", witness=w)
            rep.inconclusive.append("numeric predicate: model witness %s does not reproduce (%s vs %s)" % (w, r1, r2))
    rp.close()
    return rep.finish()


if __name__ == "__main__":
    sys.exit(main())
