"""Shared plumbing of the checks: arguments, evidence, known findings, verdict protocol.

exit 0  property held on everything explored (KNOWN-FINDING lines allowed)
exit 1  VIOLATION property=<id> replay=<path>   (only after the model reproduced on the real code)
exit 2  inconclusive: unsupported construct, solver timeout/unknown, model did not reproduce, oracle failed its corpus
"""
import argparse
import json
import os
import sys
import time
import hashlib

ROOT = os.path.abspath(os.path.join(os.path.dirname(__file__), ".."))
sys.path.insert(0, os.path.join(ROOT, "engine"))
sys.path.insert(0, os.path.join(ROOT, "spec"))
REPO = os.environ.get("VERIF_DEV_REPO", "/repo")     # the override is for developing harnesses against a scratch worktree only; registered commands never set it


# Seeded-mutant regression runs (development only) set VERIF_EVIDENCE_DIR to a scratch directory so that the committed evidence
# files always describe a run on the unchanged tree; registered commands never set it.
EVIDENCE_DIR = os.environ.get("VERIF_EVIDENCE_DIR") or os.path.join(ROOT, "evidence")


class Inconclusive(Exception):
    pass


def repo_state():
    """HEAD and cleanliness of the tree the encodings were generated from (recorded in every evidence file)"""
    import subprocess
    try:
        head = subprocess.run(["git", "-C", REPO, "rev-parse", "--short", "HEAD"], capture_output=True, text=True, timeout=20).stdout.strip()
        dirty = subprocess.run(["git", "-C", REPO, "status", "--porcelain", "--untracked-files=no"], capture_output=True, text=True, timeout=20).stdout.strip()
        return {"head": head, "modified_files": [l[3:] for l in dirty.splitlines()][:20]}
    except Exception as e:  # noqa
        return {"head": "unknown", "modified_files": [], "error": str(e)[:100]}


def args_for(prop):
    ap = argparse.ArgumentParser()
    ap.add_argument("--tier", default=os.environ.get("VERIF_TIER", "quick"), choices=["quick", "thorough"])
    ap.add_argument("--seed", type=int, default=int(os.environ.get("VERIF_SEED", "0") or 0))
    ap.add_argument("--replay", default=None)
    ap.add_argument("--jobs", type=int, default=int(os.environ.get("VERIF_JOBS", "0") or 0))
    a = ap.parse_args()
    if a.jobs <= 0:
        a.jobs = min(16, os.cpu_count() or 4)
    a.prop = prop
    return a


def known_findings(prop):
    """-> (open findings, fixed entries) for this property"""
    p = os.path.join(ROOT, "known_findings.jsonl")
    op, fx = [], []
    if os.path.exists(p):
        for line in open(p):
            line = line.strip()
            if not line or line.startswith("#"):
                continue
            if line.startswith("fixed:"):
                if ("property=%s " % prop) in line:
                    fx.append(line)
                continue
            d = json.loads(line)
            if d.get("property") == prop:
                op.append(d)
    return op, fx


class Report:
    def __init__(self, args, level="model_checking"):
        self.args = args
        self.prop = args.prop
        self.t0 = time.time()
        self.level = level
        self.obligations = []      # dicts
        self.assumptions = []
        self.functions = {}
        self.samples = []
        self.violations = []
        self.known = []
        self.inconclusive = []
        self.queries = 0
        self.solver_s = 0.0
        self.replays = 0
        self.tv_cases = 0
        self.bounds = {}
        self.extra = {}

    def obligation(self, oid, status, **kw):
        d = dict(id=oid, status=status)
        d.update(kw)
        self.obligations.append(d)
        return d

    def violation(self, oid, case, what):
        d = os.path.join(ROOT, "replays", self.prop)
        os.makedirs(d, exist_ok=True)
        h = hashlib.sha256(json.dumps(case, sort_keys=True).encode()).hexdigest()[:10]
        path = os.path.join(d, "%s-%s.json" % (oid.replace("/", "_"), h))
        case = dict(case)
        case["obligation"] = oid
        case["what"] = what
        with open(path, "w") as f:
            json.dump(case, f, ensure_ascii=False, indent=1)
        self.violations.append((oid, path, what))
        print("VIOLATION property=%s replay=%s" % (self.prop, path))
        print("  obligation %s: %s" % (oid, what))
        sys.stdout.flush()

    def known_finding(self, finding, detail):
        self.known.append((finding, detail))
        print("KNOWN-FINDING: property=%s %s" % (self.prop, detail))
        sys.stdout.flush()

    def finish(self):
        wall = time.time() - self.t0
        n_obl = len(self.obligations)
        held = [o for o in self.obligations if o["status"] in ("holds", "known-finding")]
        nontrivial = [o for o in self.obligations if o.get("reach") == "sat"]
        cov = {
            "obligations": n_obl,
            "discharged": len(held),
            "evaluations": max(1, self.queries),
            "distinct_nontrivial": len(nontrivial),
            "rule": "one evaluation = one solver query (or Kani harness); an obligation is non-trivial when its reachability twin (antecedent and implementation path satisfiable) came back sat; obligations are distinct by id",
            "states": max(1, self.extra.get("instances", n_obl)),
            "transitions": max(1, self.queries),
            "traces_validated_against_impl": self.replays + self.tv_cases,
            "samples": self.samples[:12] if self.samples else [o["id"] for o in self.obligations[:5]] or ["(none)"],
            "explanation": "solver-based bounded checking: the functions listed under functions_encoded are re-read from /repo on this run and executed symbolically; every obligation is decided by z3 (QF_BV) or CBMC for all inputs inside `bounds`; nothing outside the bounds is claimed",
            "functions_encoded": self.functions,
            "bounds": self.bounds,
            "queries": self.queries,
            "solver_s": round(self.solver_s, 2),
            "replays_against_real_code": self.replays,
            "translator_validation_cases": self.tv_cases,
            "obligation_list": self.obligations,
            "known_findings_reported": [k[1] for k in self.known],
            "inconclusive": self.inconclusive,
            "exhaustive": False,
        }
        cov.update(self.extra)
        cov["repo_tree"] = repo_state()
        ev = {
            "property_id": self.prop,
            "tier": self.args.tier,
            "seed": self.args.seed,
            "level": self.level,
            "coverage": cov,
            "assumptions": self.assumptions,
            "wall_s": round(wall, 2),
            "violations": len(self.violations),
        }
        os.makedirs(EVIDENCE_DIR, exist_ok=True)
        tmp = os.path.join(EVIDENCE_DIR, "%s.json.tmp" % self.prop)
        with open(tmp, "w") as f:
            json.dump(ev, f, ensure_ascii=False, indent=1, default=str)
        os.replace(tmp, os.path.join(EVIDENCE_DIR, "%s.json" % self.prop))
        if self.violations:
            print("%s: %d violation(s), %d obligations, %.1fs" % (self.prop, len(self.violations), n_obl, wall))
            return 1
        if self.inconclusive:
            print("%s: INCONCLUSIVE (%s), %d obligations, %.1fs" % (self.prop, "; ".join(map(str, self.inconclusive))[:600], n_obl, wall))
            return 2
        print("%s: held on everything explored: %d obligations (%d non-trivial), %d queries, %d replays, %d translator-validation cases, %.1fs" % (
            self.prop, n_obl, len(nontrivial), self.queries, self.replays, self.tv_cases, wall))
        return 0


def fn_table(grammar):
    out = {}
    for (f, name), h in sorted(grammar.used_fns.items()):
        fn = grammar.dump.fns.get((f, name))
        line = fn["line"] if fn else 0
        out["%s:%d %s" % (f.replace(REPO + "/", ""), line, name)] = h
    return out


def show(s):
    return s.encode("unicode_escape").decode("ascii") if any(ord(ch) > 126 or ord(ch) < 32 for ch in s) else s


def replay_generic(args, judge):
    """--replay <case.json>: run the stored case on the real build; judge(case, outcome) -> True if it still violates"""
    from sx import replay as _rp
    case = json.load(open(args.replay))
    rp = _rp.Replay(release=bool(case.get("release")))
    q = {k: v for k, v in case.items() if k not in ("obligation", "what", "expect", "property")}
    out = rp.run(q)
    rp.close()
    print("replay %s -> %s" % (json.dumps(q, ensure_ascii=True)[:300], json.dumps(out, ensure_ascii=True)[:300]))
    if judge(case, out):
        print("VIOLATION property=%s replay=%s" % (args.prop, args.replay))
        return 1
    print("does not reproduce on the current tree")
    return 0
