"""C01 (element content -> information items): info XmlElement::node over an arbitrary parse result.

The parse model of an element's content is `head text, then cells (child, tail text)`.  XmlElement::node is executed
by the S-kernel from source on such a value: head and tails are SYMBOLIC strings (0-2 / 0-1 characters, any character
that character data may hold, white space included), k <= 2 cells whose children are an element, a comment, a CDATA
section, a PI or a character reference.  The item constructors (Xml*::node) are recording stubs.
Post: the element's children are exactly - in order - the head as a text item when it is not empty, then for every
cell its child item followed by the tail as a text item when it is not empty; every text item holds its characters
unchanged (white-space-only text is character data like any other).
"""
import itertools
import time
import z3

import common
import kharness as K
import xmlgram
from sx import kernel, kstd, sym
from sx.kernel import Enum, Obj, Some, NONE, SVec, SStr, Ok

PARSER_MODEL = xmlgram.GRAMMAR_FILES[1]
CHILD_KINDS = ["Element", "Comment", "CData", "PI", "CharRef"]


def text_ok(s):
    import xmlref
    return sym.And(*[sym.And(xmlref.is_char(ch.c), sym.Not(sym.c_in_str(ch.c, "<&"))) for ch in s])


def decide_shape(head_len, cells, timeout_s=60):
    """cells: tuple of (kind, tail_len)"""
    I = K.new_interp("debug")
    cons = []
    hs, c = K.sym_str("head", head_len)
    cons.append(sym.And(c, text_ok(hs)))
    tails = []
    for i, (kind, tl) in enumerate(cells):
        ts, c = K.sym_str("tail%d_" % i, tl)
        cons.append(sym.And(c, text_ok(ts)))
        tails.append(ts)
    I.assume(sym.to_z3(sym.And(*cons)))
    made = []

    def rec(kind, field=None):
        def stub(I, *a):
            payload = a[0] if a else None
            o = K.mk_obj("Rec" + kind, None, payload=SStr(payload) if isinstance(payload, (SStr, list)) else payload)
            it = K.mk_enum("XmlItem", K.INFO, kind, o)
            return it
        return stub
    I.stubs["XmlText::node"] = rec("Text")
    I.stubs["XmlCData::node"] = rec("CData")
    I.stubs["XmlComment::node"] = rec("Comment")
    I.stubs["XmlProcessingInstruction::node"] = lambda I, v, pid, ctx: K.mk_enum("XmlItem", K.INFO, "PI", K.mk_obj("RecPI", None, payload=v))
    I.stubs["XmlCharReference::node"] = lambda I, ch, radix, pid, ctx: Ok(K.mk_enum("XmlItem", K.INFO, "CharReference", K.mk_obj("RecCharRef", None, payload=ch)))
    I.stubs["XmlAttribute::node"] = lambda I, *a: Ok("attr")
    I.stubs["node"] = lambda I, v: v
    I.stubs["singleton"] = lambda I, v: v
    I.mstubs = {("Context", "next"): lambda I, c: K.mk_obj("Context", K.INFO, info=K.mk_obj("ContextInfo", K.INFO, id=z3.BitVec("fresh_id", 64))),
                ("Context", "add_item"): lambda I, c, n: kernel.UNIT}

    def mk_element(name, content):
        return K.mk_obj("Element", PARSER_MODEL, name=K.mk_enum("QName", None, "Unprefixed", kernel.from_pystr(name)), attributes=SVec(), content=content)

    def thunk(I):
        head = K.sym_str("head", head_len)[0]
        cs = SVec()
        expect = []
        if head_len:
            expect.append(("Text", SStr(head)))
        for i, (kind, tl) in enumerate(cells):
            tail = K.sym_str("tail%d_" % i, tl)[0]
            if kind == "Element":
                child = K.mk_enum("Contents", PARSER_MODEL, "Element", mk_element("c%d" % i, NONE))
            elif kind == "Comment":
                child = K.mk_enum("Contents", PARSER_MODEL, "Comment", K.mk_obj("Comment", PARSER_MODEL, value=kernel.from_pystr("c%d" % i)))
            elif kind == "CData":
                child = K.mk_enum("Contents", PARSER_MODEL, "CData", K.mk_obj("CData", PARSER_MODEL, value=kernel.from_pystr("d%d" % i)))
            elif kind == "PI":
                child = K.mk_enum("Contents", PARSER_MODEL, "PI", K.mk_obj("PI", PARSER_MODEL, target=kernel.from_pystr("p%d" % i), value=NONE))
            else:
                child = K.mk_enum("Contents", PARSER_MODEL, "Reference", K.mk_enum("Reference", PARSER_MODEL, "Character", kernel.from_pystr("65"), 10))
            # the parser gives Some(text) for a text run and None when there is none; an empty Some is handled like None
            cs.append(K.mk_obj("ContentCell", PARSER_MODEL, child=child, tail=Some(SStr(tail))))
            expect.append((kind, i))
            if tl:
                expect.append(("Text", SStr(tail)))
        content = Some(K.mk_obj("Content", PARSER_MODEL, head=Some(SStr(head)), children=cs))
        value = mk_element("e", content)
        ctx = K.mk_obj("Context", K.INFO, info=K.mk_obj("ContextInfo", K.INFO, id=z3.BitVec("ctx_id", 64)))
        fn = [f for f in I.dump.methods[(K.INFO, "XmlElement", "node")]][0]
        r = I.call_fn(K.INFO, fn, [value, NONE, ctx])
        return (r, expect)
    paths = I.explore(thunk)

    def kind_of(it):
        return {"Element": "Element", "Comment": "Comment", "CData": "CData", "PI": "PI", "CharReference": "CharRef", "Text": "Text"}.get(it.variant, it.variant)

    def post(p):
        if p["kind"] == "panic":
            return False
        r, expect = p["value"]
        if not (isinstance(r, Enum) and r.variant == "Ok"):
            return False
        item = r.fields[0]
        el = item.fields[0] if isinstance(item, Enum) else item
        kids = list(el.fields["children"])
        if len(kids) != len(expect):
            return False
        conds = []
        for got, want in zip(kids, expect):
            if not isinstance(got, Enum) or kind_of(got) != want[0]:
                return False
            if want[0] == "Text":
                pl = got.fields[0].fields["payload"]
                if len(pl) != len(want[1]):
                    return False
                conds.append(sym.And(*[sym.ceq(a.c, b.c) for a, b in zip(pl, want[1])]))
        return sym.And(*conds)
    verdict, info, nq = K.decide(I, paths, post, timeout_s)
    q = nq + I.feas_queries
    if verdict == "sat":
        mdl, p = info
        d = {"head": K.model_str(mdl, hs), "cells": [(kind, K.model_str(mdl, tails[i])) for i, (kind, tl) in enumerate(cells)], "panic": p.get("msg") if p["kind"] == "panic" else None}
        if p["kind"] == "ret":
            r, expect = p["value"]
            try:
                item = r.fields[0]
                el = item.fields[0] if isinstance(item, Enum) else item
                d["children_built"] = [kind_of(x) for x in el.fields["children"]]
                d["children_specified"] = [w[0] for w in expect]
            except Exception:  # noqa
                d["result"] = str(r)[:100]
        return "sat", d, q, len(paths), K.fn_table(I)
    if verdict != "holds":
        return "unknown", str(info), q, len(paths), K.fn_table(I)
    return "holds", None, q, len(paths), K.fn_table(I)


def work(job):
    head_len, cells, timeout_s = job
    t0 = time.time()
    try:
        st, detail, q, npaths, fns = decide_shape(head_len, cells, timeout_s)
        return {"job": (head_len, cells), "status": st, "detail": detail, "queries": q, "paths": npaths, "fns": fns, "wall": time.time() - t0, "error": None}
    except (kernel.Unsupported, kernel.Panic) as e:
        return {"job": (head_len, cells), "status": "error", "error": "%s: %s" % (type(e).__name__, e), "detail": None, "queries": 0, "paths": 0, "fns": {}, "wall": time.time() - t0}


RENDER = {"Element": "<c/>", "Comment": "<!--c-->", "CData": "<![CDATA[d]]>", "PI": "<?p?>", "CharRef": "&#65;"}


def judge(case, out):
    if "panic" in out or "died" in out:
        return True
    return not (out.get("ok") and out.get("value") == case["expected_value"])


def obligations(rep, rp, tier, jobs_n=16):
    import multiprocessing as mp
    kmax = 2
    jobs = []
    for hl in (0, 1, 2):
        for k in range(0, kmax + 1):
            for kinds in itertools.product(CHILD_KINDS if tier != "quick" or k < 2 else CHILD_KINDS[:3], repeat=k):
                for tls in itertools.product((0, 1), repeat=k):
                    jobs.append((hl, tuple(zip(kinds, tls)), 60))
    with mp.Pool(min(jobs_n, len(jobs))) as pool:
        results = pool.map(work, jobs, chunksize=8)
    bad, holds = [], 0
    for res in results:
        rep.queries += res["queries"]
        rep.functions.update(res.get("fns", {}))
        if res["status"] == "holds":
            holds += 1
        elif res["status"] == "sat":
            bad.append(res)
        else:
            rep.inconclusive.append("element content %s: %s" % (res["job"], res.get("error") or res.get("detail")))
    rep.bounds["element_content"] = {"head": "0-2 symbolic characters", "cells": "0-2, child in %s, tail 0-1 symbolic characters" % CHILD_KINDS, "shapes": len(jobs),
                                     "outside": "attributes, nested content below the children, longer text runs (handled per run, not per character)"}
    rep.assumptions.append("element content: the item constructors Xml*::node are recording stubs; Context::next / add_item and node()/singleton() are identities")
    status = "holds"
    bad.sort(key=lambda r: (len(r["job"][1]), r["job"][0]))
    confirmed = None
    for res in bad[:6]:
        d = res["detail"]
        if d.get("panic"):
            continue
        # replay: the document with these text runs; its children and string value through the DOM
        body = d["head"] + "".join(RENDER[k] + t for k, t in d["cells"])
        doc = "<e>%s</e>" % body
        want_n = (1 if d["head"] else 0) + sum(1 + (1 if t else 0) for k, t in d["cells"])
        rr = rp.run({"op": "query", "doc": doc, "input": "count(/e/node())"})
        rep.replays += 1
        if "panic" in rr or "died" in rr or not (rr.get("ok") and rr.get("value") == str(want_n)):
            confirmed = (doc, want_n, rr, d)
            break
    if confirmed:
        doc, want_n, rr, d = confirmed
        status = "violated"
        rep.violation("C01.s.element-content", {"op": "query", "doc": doc, "input": "count(/e/node())", "property": "C01", "expected_value": str(want_n)},
                      "%s has %d children (text runs and child items, white space included); the document built from it has %s (model: built %s, specified %s)" % (
                          common.show(doc), want_n, rr.get("value", rr), d.get("children_built"), d.get("children_specified")))
    elif bad:
        status = "inconclusive"
        rep.inconclusive.append("element content: %d model witnesses (first %s %s) did not reproduce on the real code" % (len(bad), bad[0]["job"], bad[0]["detail"]))
    rep.obligation("C01.s.element-content", status, reach="sat", shapes=len(jobs), shapes_holding=holds, shapes_with_witness=len(bad),
                   first_witness=(bad[0]["job"], bad[0]["detail"]) if bad else None)
