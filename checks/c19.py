"""C19 (context neutrality kernel): a query leaves the evaluation context as it found it - also when it fails.

xpath/src/eval/mod.rs eval_filter_expr and eval_axis_node_test push the context size and position around every
predicate evaluation.  They are executed symbolically by the S-kernel together with the real
model::Context::{push,pop}_{size,position}; the sub-evaluators that need a document (eval_primary_expr,
eval_predicate, eval_node_test, the axis functions) are nondeterministic stubs: they return any node list of
<= M opaque nodes, any boolean, or an error.  Obligation: on EVERY path - success or error - the size and
position stacks are what they were before the call, so a later query with the same context sees position() and
last() exactly as with a fresh context.
"""
import sys
import time
import json
import multiprocessing as mp
import z3

import common
from common import show
import kharness as K
from sx import kernel, kstd, sym, replay, nomsem
from sx.kernel import Enum, Obj, Ok, Err, Some, NONE, SStr, SVec
from sx.sym import And, Or, Not

AXIS_FNS = ["ancestor", "ancestor_and_self", "attributes", "child", "descendant", "descendant_and_self", "following",
            "following_sibling", "namespace", "preceding", "preceding_sibling"]


def work(job):
    target, npred, nnodes, depth, timeout_s = job
    out = {"job": job[:4], "status": "holds", "paths": 0, "queries": 0, "error": None}
    t0 = time.time()
    try:
        I = K.new_interp("debug", max_paths=20000)
        I.files_in_scope = (K.XFUNC, K.XMODEL, K.XEVAL)
        counter = {"n": 0}

        def fresh_bool(tag):
            counter["n"] += 1
            return z3.Bool("%s%d" % (tag, counter["n"]))

        def some_nodes():
            return SVec("n%d" % k for k in range(nnodes))

        def stub_nodes_or_err(I, *a):
            if I.truth(fresh_bool("fail")):
                return Err(K.mk_enum("Error", None, "InvalidType"))
            return Ok(K.mk_enum("Value", K.XMODEL, "Node", some_nodes()))

        def stub_bool_or_err(I, *a):
            if I.truth(fresh_bool("fail")):
                return Err(K.mk_enum("Error", None, "InvalidType"))
            return Ok(fresh_bool("sel"))
        I.stubs["eval_primary_expr"] = stub_nodes_or_err
        I.stubs["eval_predicate"] = stub_bool_or_err
        I.stubs["eval_node_test"] = stub_bool_or_err
        for a in AXIS_FNS:
            I.stubs[a] = lambda I, n: some_nodes()
        I.mstubs = {("FilterStub", "primary"): lambda I, r: "primary", ("FilterStub", "predicates"): lambda I, r: SVec("p%d" % k for k in range(npred))}
        size0 = [z3.BitVec("size%d" % k, 64) for k in range(depth)]
        pos0 = [z3.BitVec("pos%d" % k, 64) for k in range(depth)]

        def thunk(I):
            counter["n"] = 0
            ctx = K.mk_obj("Context", K.XMODEL, size=SVec(size0), position=SVec(pos0), namespaces=SVec())
            if target == "eval_filter_expr":
                fn = I.dump.fns[(K.XEVAL, target)]
                r = I.call_fn(K.XEVAL, fn, [K.mk_obj("FilterStub", None), "node", ctx])
            else:
                fn = I.dump.fns[(K.XEVAL, target)]
                axis = K.mk_enum("AxisSpecifier", None, "Abbreviated", kernel.from_pystr(""))
                r = I.call_fn(K.XEVAL, fn, [axis, "test", SVec("p%d" % k for k in range(npred)), "node", ctx])
            return (r, SVec(ctx.fields["size"]), SVec(ctx.fields["position"]))
        paths = I.explore(thunk)
        out["paths"] = len(paths)
        errs = sum(1 for p in paths if p["kind"] == "ret" and p["value"][0].variant == "Err")
        out["error_paths"] = errs

        def post(p):
            if p["kind"] == "panic":
                return False
            r, size, position = p["value"]
            if len(size) != depth or len(position) != depth:
                return False
            return And(*[kstd.v_eq(I, a, b) for a, b in zip(size, size0)], *[kstd.v_eq(I, a, b) for a, b in zip(position, pos0)])
        verdict, info, nq = K.decide(I, paths, post, timeout_s)
        out["queries"] = nq + I.feas_queries
        out["fns"] = K.fn_table(I)
        if verdict == "sat":
            mdl, p = info
            out["status"] = "sat"
            if p["kind"] == "panic":
                out["witness"] = {"target": target, "panic": p["msg"]}
            else:
                r, size, position = p["value"]
                out["witness"] = {"target": target, "result": r.variant, "size_depth": len(size), "position_depth": len(position), "initial_depth": depth}
        elif verdict == "unknown":
            out["status"] = "unknown"
            out["error"] = info
    except (kernel.Unsupported, nomsem.Unsupported) as e:
        out["status"] = "unsupported"
        out["error"] = str(e)
    except Exception:
        import traceback
        out["status"] = "unsupported"
        out["error"] = "exception: " + traceback.format_exc()[-700:]
    out["wall"] = time.time() - t0
    return out


# query series against one shared context: a failing predicate, predicates that select nothing / something / several in a row
REPLAY = {
    "eval_filter_expr": [{"op": "queries", "doc": "<r><a/><a/></r>", "exprs": ["(//a)[$x]", "position()", "last()"]},
                         {"op": "queries", "doc": "<r><a/><a/></r>", "exprs": ["(//a)[@none]", "position()", "last()"]},
                         {"op": "queries", "doc": "<r><a/><a/></r>", "exprs": ["(//a)[1][1]", "position()", "last()"]},
                         {"op": "queries", "doc": "<r><a/><a/></r>", "exprs": ["(//a)[@none][1]", "position()", "last()"]}],
    "eval_axis_node_test": [{"op": "queries", "doc": "<r><a/><a/></r>", "exprs": ["//a[$x]", "position()", "last()"]},
                            {"op": "queries", "doc": "<r><a/><a/></r>", "exprs": ["/r/a[@none]", "position()", "last()"]},
                            {"op": "queries", "doc": "<r><a/><a/></r>", "exprs": ["/r/a[1][1]", "position()", "last()"]},
                            {"op": "queries", "doc": "<r><a/><a/></r>", "exprs": ["/r/a[@none][1]", "position()", "last()"]}],
}


def dirty(rr):
    return rr.get("shared") != rr.get("fresh")


def main():
    args = common.args_for("C19")
    rep = common.Report(args)
    try:
        rp = replay.Replay()
    except replay.ReplayError as e:
        rep.inconclusive.append(str(e))
        return rep.finish()
    if args.replay:
        case = json.load(open(args.replay))
        rr = rp.run({k: case[k] for k in ("op", "doc", "exprs")})
        print("replay %s -> %s" % (case["exprs"], rr))
        if dirty(rr):
            print("VIOLATION property=C19 replay=%s" % args.replay)
            return 1
        print("does not reproduce on the current tree")
        return 0
    timeout_s = 120 if args.tier == "quick" else 900
    maxp = 2 if args.tier == "quick" else 4
    maxn = 2 if args.tier == "quick" else 4
    rep.bounds = {"predicates": "0..%d" % maxp, "nodes_per_step": "0..%d opaque nodes" % maxn, "initial_stack_depth": "0..1 with symbolic entries",
                  "outside": "determinism of parsing, the document being unchanged by a query, the namespace bindings of the context: relations between whole evaluator runs over a live document"}
    rep.assumptions += ["eval_primary_expr / eval_predicate / eval_node_test / the axis functions are nondeterministic stubs (any node list of the bounded size, any boolean, or an error); they themselves leave the context as they found it (the inductive hypothesis: they are these two functions again, or context-free)",
                        "node order and duplicates are not modelled (sort_by_cached_key is a no-op): the obligation does not depend on them"]
    jobs = []
    for target in ("eval_filter_expr", "eval_axis_node_test"):
        for npred in range(0, maxp + 1):
            for nn in range(0, maxn + 1):
                for depth in (0, 1):
                    jobs.append((target, npred, nn, depth, timeout_s))
    with mp.Pool(args.jobs) as pool:
        results = pool.map(work, jobs, chunksize=1)
    reported = set()
    for res in results:
        target, npred, nn, depth = res["job"]
        oid = "C19.s.neutral.%s.p%d.n%d.d%d" % (target, npred, nn, depth)
        rep.queries += res["queries"]
        rep.extra["paths"] = rep.extra.get("paths", 0) + res["paths"]
        rep.functions.update(res.get("fns", {}))
        if res["status"] in ("unsupported", "unknown"):
            rep.obligation(oid, "inconclusive", error=res["error"])
            rep.inconclusive.append("%s: %s" % (oid, str(res["error"])[:300]))
            continue
        if res["status"] == "holds":
            rep.obligation(oid, "holds", reach="sat" if res["paths"] else "unsat", paths=res["paths"], error_paths=res.get("error_paths"), wall_s=round(res["wall"], 2))
            continue
        w = res["witness"]
        rr, used = None, None
        for series in REPLAY[target]:
            rr = rp.run(series)
            rep.replays += 1
            used = series
            if dirty(rr):
                break
        if dirty(rr):
            rep.obligation(oid, "violated", witness=w)
            if target not in reported:
                reported.add(target)
                case = dict(used)
                case["property"] = "C19"
                rep.violation(oid, case, "%s returns with the context stacks changed (%s); with one shared context the queries %s answer %s, with fresh contexts %s" % (
                    target, w, case["exprs"], rr.get("shared"), rr.get("fresh")))
            else:
                rep.violations.append((oid, None, ""))
        else:
            rep.obligation(oid, "inconclusive", witness=w)
            rep.inconclusive.append("%s: model witness %s does not reproduce: %s" % (oid, w, str(rr)[:200]))
    rep.samples += [{"obligation": r["job"], "paths": r["paths"], "error_paths": r.get("error_paths")} for r in results[-6:]]
    rp.close()
    return rep.finish()


if __name__ == "__main__":
    sys.exit(main())
