"""C01 (which declaration a reference denotes): info Context::entity from an arbitrary declaration list.

XML 1.0 section 4.2: when an entity is declared more than once the FIRST declaration is binding; section 4.6: lt, gt,
amp, apos, quot are predefined.  Context::entity is executed by the S-kernel from source over a DOCTYPE whose entity
list holds k declarations (k <= 3 quick / 4 thorough) with SYMBOLIC names of 1-2 characters and a symbolic queried
name.  Post: the result is the first declaration carrying the queried name; else the predefined entity of that name
with its one-character replacement text; else Err(NotFoundReference).
"""
import itertools
import time
import z3

import common
import kharness as K
from sx import kernel, kstd, sym
from sx.kernel import Enum, Obj, Some, NONE, SVec, SStr, Ch
from sx.sym import And, Or, Not

PREDEFINED = {"lt": "<", "gt": ">", "amp": "&", "apos": "'", "quot": "\""}


def str_eq(a, b):
    if len(a) != len(b):
        return False
    return And(*[sym.ceq(x.c, y.c) for x, y in zip(a, b)])


def is_lit(a, lit):
    if len(a) != len(lit):
        return False
    return And(*[sym.ceq(x.c, ord(ch)) for x, ch in zip(a, lit)])


def decide_shape(lens, qlen, timeout_s=60):
    I = K.new_interp("debug")
    cons = []
    for i, n in enumerate(lens):
        _, c = K.sym_str("n%d_" % i, n)
        cons.append(c)
    _, c = K.sym_str("q", qlen)
    cons.append(c)
    I.assume(sym.to_z3(And(*cons)))
    state = {}

    def thunk(I):
        names = [K.sym_str("n%d_" % i, n)[0] for i, n in enumerate(lens)]
        q = K.sym_str("q", qlen)[0]
        ents = [K.mk_obj("XmlEntity", K.INFO, name=SStr(nm), values=NONE, tag=i) for i, nm in enumerate(names)]
        decl = K.mk_obj("XmlDocumentTypeDeclaration", K.INFO)
        doc = K.mk_obj("XmlDocument", K.INFO)
        ctx = K.mk_obj("Context", K.INFO)
        state.update(doc=doc, decl=decl, ents=ents)
        r = I.try_repo_method(ctx, "entity", [SStr(q)])
        return (r, names, q, ents)
    I.mstubs = {("Context", "document"): lambda I, c: state["doc"],
                ("XmlDocument", "document_declaration"): lambda I, d: Some(state["decl"]),
                ("XmlDocumentTypeDeclaration", "entities"): lambda I, d: SVec(state["ents"]),
                ("Context", "zero"): lambda I, c: c}
    paths = I.explore(thunk)

    def post(p):
        if p["kind"] == "panic":
            return False
        r, names, q, ents = p["value"]
        cases = []
        none_before = True
        for i, nm in enumerate(names):
            hit = str_eq(nm, q)
            ok = isinstance(r, Enum) and r.variant == "Ok" and r.fields[0] is ents[i]
            cases.append(And(none_before, hit, ok))
            none_before = And(none_before, Not(hit))
        none_pre = True
        for lit, val in PREDEFINED.items():
            hit = is_lit(q, lit)
            ok = False
            if isinstance(r, Enum) and r.variant == "Ok" and isinstance(r.fields[0], Obj) and r.fields[0] not in ents:
                e = r.fields[0]
                vals = e.fields.get("values")
                try:
                    text = vals.fields[0][0].fields[0]
                    ok = And(is_lit(e.fields["name"], lit), is_lit(text, val))
                except Exception:  # noqa
                    ok = False
            cases.append(And(none_before, hit, ok))
            none_pre = And(none_pre, Not(hit))
        cases.append(And(none_before, none_pre, isinstance(r, Enum) and r.variant == "Err"))
        return Or(*cases)
    verdict, info, nq = K.decide(I, paths, post, timeout_s)
    q = nq + I.feas_queries
    if verdict == "sat":
        mdl, p = info
        r, names, qq, ents = p["value"] if p["kind"] == "ret" else (None, None, None, None)
        d = {"panic": p.get("msg") if p["kind"] == "panic" else None}
        if names is not None:
            d["names"] = [K.model_str(mdl, nm) for nm in names]
            d["query"] = K.model_str(mdl, qq)
            d["returned"] = (r.fields[0].fields.get("tag", "predefined") if r.variant == "Ok" else "Err") if isinstance(r, Enum) else str(r)
        return "sat", d, q, len(paths), K.fn_table(I)
    if verdict != "holds":
        return "unknown", str(info), q, len(paths), K.fn_table(I)
    return "holds", None, q, len(paths), K.fn_table(I)


def work(job):
    lens, qlen, timeout_s = job
    t0 = time.time()
    try:
        st, detail, q, npaths, fns = decide_shape(lens, qlen, timeout_s)
        return {"job": (lens, qlen), "status": st, "detail": detail, "queries": q, "paths": npaths, "fns": fns, "wall": time.time() - t0, "error": None}
    except (kernel.Unsupported, kernel.Panic) as e:
        return {"job": (lens, qlen), "status": "error", "error": "%s: %s" % (type(e).__name__, e), "detail": None, "queries": 0, "paths": 0, "fns": {}, "wall": time.time() - t0}


def judge(case, out):
    if "panic" in out or "died" in out:
        return True
    return not (out.get("ok") and out.get("value") == case["expected_value"])


def obligations(rep, rp, tier, jobs_n=16):
    import multiprocessing as mp
    kmax = 3 if tier == "quick" else 4
    jobs = []
    for k in range(0, kmax + 1):
        for lens in itertools.product((1, 2), repeat=k):
            for qlen in (1, 2, 3, 4):
                jobs.append((lens, qlen, 60))
    with mp.Pool(min(jobs_n, len(jobs))) as pool:
        results = pool.map(work, jobs, chunksize=4)
    bad, holds = [], 0
    for res in results:
        rep.queries += res["queries"]
        rep.functions.update(res.get("fns", {}))
        if res["status"] == "holds":
            holds += 1
        elif res["status"] == "sat":
            bad.append(res)
        else:
            rep.inconclusive.append("entity binding %s/q%d: %s" % (res["job"][0], res["job"][1], res.get("error") or res.get("detail")))
    rep.bounds["entity_binding"] = {"declarations": kmax, "name_lengths": [1, 2], "queried_name_lengths": [1, 2, 3, 4], "shapes": len(jobs),
                                    "outside": "longer names (the comparison is per character); documents without a DOCTYPE"}
    rep.assumptions.append("entity binding: Context::document / document_declaration / entities return the DOCTYPE's entity declarations in document order")
    status = "holds"
    bad.sort(key=lambda r: (len(r["job"][0]), r["job"][1]))
    confirmed = None
    for res in bad[:6]:
        d = res["detail"]
        if not d.get("names"):
            continue
        # replay: the same declaration list with the model's names made XML names, distinguishable replacement texts
        names = list(d["names"])
        alias = {}
        for nm in names + [d["query"]]:
            if nm not in alias:
                alias[nm] = nm if nm in PREDEFINED else "e%d" % len(alias)
        decls = "".join("<!ENTITY %s \"v%d\">" % (alias[nm], i) for i, nm in enumerate(names))
        doc = "<!DOCTYPE r [%s]><r a='&%s;'/>" % (decls, alias[d["query"]])
        first = [i for i, nm in enumerate(names) if nm == d["query"]]
        if first:
            want = "v%d" % first[0]
        elif d["query"] in PREDEFINED:
            want = PREDEFINED[d["query"]]
        else:
            continue
        rr = rp.run({"op": "attr_value", "input": doc})
        rep.replays += 1
        if "panic" in rr or "died" in rr or not (rr.get("ok") and rr.get("value") == want):
            confirmed = (doc, want, rr)
            break
    if confirmed:
        doc, want, rr = confirmed
        status = "violated"
        rep.violation("C01.s.entity-binding", {"op": "attr_value", "input": doc, "property": "C01", "expected_value": want},
                      "the reference in %s denotes %r (first declaration binds; predefined entities), the attribute value is %s" % (common.show(doc), want, str(rr)[:120]))
    elif bad:
        status = "inconclusive"
        rep.inconclusive.append("entity binding: %d model witnesses (first %s %s) did not reproduce on the real code" % (len(bad), bad[0]["job"], bad[0]["detail"]))
    rep.obligation("C01.s.entity-binding", status, reach="sat", shapes=len(jobs), shapes_holding=holds, shapes_with_witness=len(bad),
                   first_witness=(bad[0]["job"], bad[0]["detail"]) if bad else None)
