"""C05 (node-test kernel): which candidate nodes a step keeps - node tests against the axis' principal node type.

xpath/src/eval/mod.rs eval_axis_node_test (axis dispatch, test loop) and eval_node_test are executed by the S-kernel from
source, with dom XmlNode::node_type / node_name and the per-type bodies behind them.  The axis functions are stubs that
deliver ONE candidate node; the candidate's kind ranges over every node kind that axis can deliver, the axis over the 13 axes and the two
abbreviated forms, the test over `*`, a QName (name equality is a stub returning ANY boolean), node(), text(),
comment(), processing-instruction() and processing-instruction('t') with a SYMBOLIC target and PI name (1-2 characters).

XPath 1.0 section 2.3: node() keeps every node; text() / comment() / processing-instruction() keep nodes of that type
(a literal restricts the PI's name); a name test keeps a node only if it is of the axis' PRINCIPAL node type - attribute
for the attribute axis, namespace for the namespace axis, element otherwise - and, for a QName, has that expanded name.
Post: the candidate is in the result iff the specification keeps it.
"""
import sys
import time
import json
import multiprocessing as mp
import z3

import common
from common import show
import kharness as K
from sx import kernel, kstd, sym, replay, nomsem
from sx.kernel import Enum, Obj, Ok, Err, Some, NONE, SStr, SVec
from sx.sym import And, Or, Not

KINDS = {"Element": ("XmlElement", "element"), "Attribute": ("XmlAttr", "attribute"), "Text": ("XmlText", "data"), "CData": ("XmlCDataSection", "data"),
         "EntityReference": ("XmlEntityReference", "value"), "PI": ("XmlProcessingInstruction", "pi"), "Comment": ("XmlComment", "data"),
         "Document": ("XmlDocument", "document"), "Namespace": ("XmlNamespace", "namespace")}
AXES = ["Ancestor", "AncestorOrSelf", "Attribute", "Child", "Descendant", "DescendantOrSelf", "Following", "FollowingSibling", "Namespace", "Parent",
        "Preceding", "PrecedingSibling", "Current"]
AXIS_FNS = ["ancestor", "ancestor_and_self", "attributes", "child", "descendant", "descendant_and_self", "following",
            "following_sibling", "namespace", "preceding", "preceding_sibling"]
TESTS = ["all", "qname", "node", "text", "comment", "pi", "pi-literal"]
DOC = "<r a='1'>t<!--c--><e/><?p?></r>"
PROBES = [("count(/r/*)", "1"), ("count(//*)", "2"), ("count(/r/text()/self::*)", "0"), ("count(/r/e/ancestor::*)", "1"),
          ("count(/r/descendant-or-self::*)", "2"), ("count(/r/e/preceding-sibling::*)", "0"), ("count(/r/@*)", "1"),
          ("count(/r/node())", "4"), ("count(/r/text())", "1"), ("count(/r/comment())", "1"), ("count(/r/processing-instruction())", "1"),
          ("count(/r/processing-instruction('p'))", "1"), ("count(/r/processing-instruction('q'))", "0"), ("count(/r/processing-instruction('e'))", "0"),
          ("count(/r/attribute::processing-instruction('a'))", "0"), ("count(/r/@a/self::*)", "0"),
          ("count(/r/namespace::*)", "1"), ("count(/r/attribute::*)", "1"), ("count(/r/child::e)", "1"), ("count(/r/@a/self::a)", "0"),
          ("count(//text()/ancestor::*)", "1"), ("count(/r/e/following-sibling::*)", "0")]


CONTENT = ["Element", "Text", "CData", "EntityReference", "PI", "Comment"]
# the node kinds an axis can deliver (XPath 1.0 section 2.2 / 5): candidates outside are not generated
DELIVERS = {"@": ["Attribute"], "Attribute": ["Attribute"], "Namespace": ["Namespace"], "": CONTENT, "Child": CONTENT, "Descendant": CONTENT,
            "Following": CONTENT, "FollowingSibling": CONTENT, "Preceding": CONTENT, "PrecedingSibling": CONTENT,
            "Ancestor": ["Element", "Document"], "Parent": ["Element", "Document"],
            "AncestorOrSelf": list(KINDS), "DescendantOrSelf": list(KINDS), "Current": list(KINDS)}


def principal(axis):
    if axis in ("@", "Attribute"):
        return "Attribute"
    if axis == "Namespace":
        return "Namespace"
    return "Element"


def work(job):
    axis, kind, test, timeout_s = job
    out = {"job": job[:3], "status": "holds", "paths": 0, "queries": 0, "error": None, "fns": {}}
    t0 = time.time()
    try:
        I = K.new_interp("debug")
        I.files_in_scope = (K.XFUNC, K.XMODEL, K.XEVAL, K.DOM)
        I.type_files = {"Value": [K.XMODEL], "XmlNode": [K.DOM]}
        tgt, c1 = K.sym_str("tgt", 1)
        nm, c2 = K.sym_str("nm", 1)
        I.assume(sym.to_z3(And(c1, c2)))
        names_equal = z3.Bool("names_equal")
        holder = {}

        def cand_node():
            domt, field = KINDS[kind]
            item = K.mk_obj("InfoStub", K.INFO, target=SStr(K.sym_str("nm", 1)[0]))
            if kind == "EntityReference":
                item = K.mk_enum("XmlEntityReferenceValue", K.DOM, "Entity", item)
            return K.mk_enum("XmlNode", K.DOM, kind, K.mk_obj(domt, K.DOM, **{field: item}))
        for a in AXIS_FNS:
            I.stubs[a] = lambda I, n: SVec([holder["cand"]])
        I.stubs["equal_qname"] = lambda I, q, n, c: Ok(names_equal)
        I.mstubs = {("InfoStub", "target"): lambda I, r: r.fields["target"],
                    # every named kind carries the same symbolic name, so a test that forgets the node type can be fooled
                    ("InfoStub", "local_name"): lambda I, r: r.fields["target"], ("InfoStub", "name"): lambda I, r: r.fields["target"],
                    ("InfoStub", "prefix"): lambda I, r: Some(r.fields["target"]),
                    ("CtxNode", "parent_node"): lambda I, r: Some(holder["cand"]),
                    ("XmlNode", "order"): lambda I, r: 1}

        def thunk(I):
            cand = cand_node()
            holder["cand"] = cand
            ctxnode = cand if axis == "Current" else K.mk_obj("CtxNode", None)
            ctx = K.mk_obj("Context", K.XMODEL, size=SVec(), position=SVec(), namespaces=SVec())
            if axis in ("@", ""):
                ax = K.mk_enum("AxisSpecifier", None, "Abbreviated", kernel.from_pystr(axis))
            else:
                ax = K.mk_enum("AxisSpecifier", None, "Name", K.mk_enum("AxisName", None, axis))
            if test == "all":
                t = K.mk_enum("NodeTest", None, "Name", K.mk_enum("NameTest", None, "All"))
            elif test == "qname":
                t = K.mk_enum("NodeTest", None, "Name", K.mk_enum("NameTest", None, "QName", "qname"))
            elif test == "pi-literal":
                t = K.mk_enum("NodeTest", None, "PI", SStr(K.sym_str("tgt", 1)[0]))
            else:
                t = K.mk_enum("NodeTest", None, "Type", K.mk_enum("NodeType", None, {"node": "Node", "text": "Text", "comment": "Comment", "pi": "PI"}[test]))
            r = I.call_fn(K.XEVAL, I.dump.fns[(K.XEVAL, "eval_axis_node_test")], [ax, t, SVec(), ctxnode, ctx])
            return (r, cand)
        paths = I.explore(thunk)
        out["paths"] = len(paths)
        same_name = sym.ceq(tgt[0].c, nm[0].c)
        if test == "all":
            keep = kind == principal(axis)
        elif test == "qname":
            keep = And(kind == principal(axis), names_equal)
        elif test == "node":
            keep = True
        elif test == "text":
            keep = kind in ("Text", "CData", "EntityReference")
        elif test == "comment":
            keep = kind == "Comment"
        elif test == "pi":
            keep = kind == "PI"
        else:
            keep = And(kind == "PI", same_name)

        def post(p):
            if p["kind"] == "panic":
                return False
            r, cand = p["value"]
            if not (isinstance(r, Enum) and r.variant == "Ok"):
                return False
            got = any(x is cand for x in r.fields[0])
            return sym.Iff(got, keep) if not isinstance(keep, bool) else (got == keep)
        verdict, info, nq = K.decide(I, paths, post, timeout_s)
        out["queries"] = nq + I.feas_queries
        out["fns"] = K.fn_table(I)
        if verdict == "sat":
            mdl, p = info
            out["status"] = "sat"
            w = {"axis": axis or "child (abbreviated)", "candidate_kind": kind, "test": test, "principal_node_type": principal(axis)}
            if p["kind"] == "panic":
                w["panic"] = p["msg"]
            else:
                r, cand = p["value"]
                w["kept"] = bool(isinstance(r, Enum) and r.variant == "Ok" and any(x is cand for x in r.fields[0]))
            out["witness"] = w
        elif verdict == "unknown":
            out["status"] = "unknown"
            out["error"] = str(info)
    except (kernel.Unsupported, nomsem.Unsupported) as e:
        out["status"] = "unsupported"
        out["error"] = str(e)
    except Exception:
        import traceback
        out["status"] = "unsupported"
        out["error"] = "exception: " + traceback.format_exc()[-700:]
    out["wall"] = time.time() - t0
    return out


def judge(case, out):
    if "panic" in out or "died" in out:
        return True
    return not (out.get("ok") and out.get("value") == case["expected_value"])


def main():
    args = common.args_for("C05")
    rep = common.Report(args)
    if args.replay:
        return common.replay_generic(args, judge)
    try:
        rp = replay.Replay()
    except replay.ReplayError as e:
        rep.inconclusive.append(str(e))
        return rep.finish()
    jobs = [(a, k, t, 60) for a in ["@", ""] + AXES for k in DELIVERS[a] for t in TESTS if not (t == "qname" and k not in ("Element", "Attribute", "Namespace"))]
    rep.bounds = {"axes": ["@ (abbreviated)", "child (abbreviated)"] + AXES, "candidate_kinds": "per axis, the kinds it can deliver (attribute axis: attributes; namespace axis: namespace nodes; child/descendant/following/preceding: content nodes; ancestor/parent: elements and the document; the -or-self axes and self: every kind)", "tests": TESTS,
                  "names": "PI target and literal: 1 symbolic character each; QName equality: any boolean",
                  "outside": "which nodes an axis delivers, predicates, name equality itself (namespaces: C10), the rest of C05 (functions over node-sets, comparisons of node-sets, whole expressions on whole documents)"}
    rep.assumptions += ["the axis functions and equal_qname are stubs (one candidate node; any boolean); dom node kinds are built directly as XmlNode variants over an info stub",
                        "text() keeping CDATA sections and entity references (which the XPath data model does not have) is accepted as this implementation's reading"]
    known_open, _ = common.known_findings("C05")
    with mp.Pool(min(args.jobs, len(jobs))) as pool:
        results = pool.map(work, jobs, chunksize=16)
    by_test = {}
    for res in results:
        axis, kind, test = res["job"]
        rep.queries += res["queries"]
        rep.functions.update(res.get("fns", {}))
        g = by_test.setdefault(test, {"n": 0, "holds": 0, "bad": []})
        g["n"] += 1
        if res["status"] == "holds":
            g["holds"] += 1
        elif res["status"] == "sat":
            g["bad"].append(res)
        else:
            rep.inconclusive.append("C05.s.node-test.%s %s/%s: %s" % (test, axis, kind, str(res["error"])[:300]))
    probe_results = None
    for test, g in sorted(by_test.items()):
        oid = "C05.s.node-test.%s" % test
        status = "holds"
        if g["bad"]:
            if probe_results is None:
                probe_results = []
                for expr, want in PROBES:
                    rr = rp.run({"op": "query", "doc": DOC, "input": expr})
                    rep.replays += 1
                    probe_results.append((expr, want, rr))
            rel = {"all": ("*",), "qname": ("::e", "::a)", "self::a"), "node": ("node()",), "text": ("text()",), "comment": ("comment()",),
                   "pi": ("processing-instruction()",), "pi-literal": ("processing-instruction('",)}[test]
            hit = [(e, w, rr) for e, w, rr in probe_results if any(x in e for x in rel) and ("panic" in rr or "died" in rr or not (rr.get("ok") and rr.get("value") == w))]
            if hit:
                status = "violated"
                e, w, rr = hit[0]
                rep.violation(oid, {"op": "query", "doc": DOC, "input": e, "property": "C05", "expected_value": w},
                              "%s on %s gives %s, XPath 1.0 gives %s (model: %d axis/kind combinations differ, first %s)" % (
                                  e, DOC, rr.get("value", rr), w, len(g["bad"]), g["bad"][0]["witness"]))
            else:
                status = "inconclusive"
                rep.inconclusive.append("%s: %d model witnesses (first %s) do not show on the probe queries" % (oid, len(g["bad"]), g["bad"][0]["witness"]))
        rep.obligation(oid, status, reach="sat", combinations=g["n"], holding=g["holds"], with_witness=len(g["bad"]),
                       first_witness=g["bad"][0]["witness"] if g["bad"] else None)
    # positional predicates count along the direction of the axis (shared with C07.s.axis)
    try:
        import c07
        ajobs = [("axis", (a, cand), 60) for a in ("Ancestor", "AncestorOrSelf", "Child", "Descendant", "DescendantOrSelf", "Following", "FollowingSibling",
                                                   "Preceding", "PrecedingSibling", "Attribute") for cand in ((0, 1), (1, 0), (0, 1, 2), (2, 0, 1))]
        with mp.Pool(min(args.jobs, len(ajobs))) as pool:
            ares = pool.map(c07.work, ajobs, chunksize=4)
        bad = [r for r in ares if r["status"] == "sat"]
        for r in ares:
            rep.queries += r["queries"]
            rep.functions.update(r.get("fns", {}))
            if r["status"] not in ("holds", "sat"):
                rep.inconclusive.append("C05.s.axis-position %s: %s" % (r["job"], str(r["error"])[:200]))
        status = "holds"
        if bad:
            hit = None
            for expr, want in c07.AXIS_PROBES:
                rr = rp.run({"op": "query", "doc": c07.AXIS_DOC, "input": expr})
                rep.replays += 1
                if "panic" in rr or "died" in rr or not (rr.get("ok") and rr.get("value") == want):
                    hit = (expr, want, rr)
                    break
            if hit:
                status = "violated"
                rep.violation("C05.s.axis-position", {"op": "query", "doc": c07.AXIS_DOC, "input": hit[0], "property": "C05", "expected_value": hit[1]},
                              "%s on %s gives %s; XPath 1.0 section 2.4 (proximity position along the axis direction) gives %r (model witness %s)" % (
                                  hit[0], c07.AXIS_DOC, hit[2].get("value", hit[2]), hit[1], bad[0]["witness"]))
            else:
                status = "inconclusive"
                rep.inconclusive.append("C05.s.axis-position: %d model witnesses (first %s) do not show on the axis probes" % (len(bad), bad[0]["witness"]))
        rep.obligation("C05.s.axis-position", status, reach="sat", shapes=len(ajobs), with_witness=len(bad))
        rep.bounds["axis_position"] = "10 named axes, 2-3 candidates with symbolic order keys in any order, [position() = t] for any 64-bit t"
    except Exception as e:  # noqa
        rep.inconclusive.append("axis position: %s: %s" % (type(e).__name__, e))
    rp.close()
    return rep.finish()


if __name__ == "__main__":
    sys.exit(main())
