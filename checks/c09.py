"""C09 (+ the scalar half of C06): XPath 1.0 core functions, conversions and operators on scalar operands.

The real bodies of xpath/src/eval/func.rs, the TryFrom<&Value> conversions and operator impls of
xpath/src/eval/model.rs and the comparison helpers of xpath/src/eval/mod.rs are executed symbolically by the
S-kernel (strings of exactly n scalar values, every f64, every arity the function table admits); the XPath 1.0
semantics is written as a *spec interpreter* that runs inside the same path exploration, so that every path
carries (implementation result, specified result) and z3 decides their equality.
"""
import sys
import time
import math
import json
import multiprocessing as mp
import z3

import common
from common import show
import kharness as K
from sx import kernel, kstd, sym, replay, nomsem
from sx.kernel import Ch, SStr, SVec, Enum, Obj, Some, NONE, Ok, Err, F64, RNE
from sx.sym import And, Or, Not

XML_WS = [(0x20, 0x20), (0x9, 0x9), (0xD, 0xD), (0xA, 0xA)]

SPEC_ARITY = {  # XPath 1.0 section 4: (min, max); None = unbounded
    "last": (0, 0), "position": (0, 0), "count": (1, 1), "id": (1, 1), "local-name": (0, 1), "namespace-uri": (0, 1), "name": (0, 1),
    "string": (0, 1), "concat": (2, None), "starts-with": (2, 2), "contains": (2, 2), "substring-before": (2, 2),
    "substring-after": (2, 2), "substring": (2, 3), "string-length": (0, 1), "normalize-space": (0, 1), "translate": (3, 3),
    "boolean": (1, 1), "not": (1, 1), "true": (0, 0), "false": (0, 0), "lang": (1, 1), "number": (0, 1), "sum": (1, 1),
    "floor": (1, 1), "ceiling": (1, 1), "round": (1, 1),
}


def V(variant, x):
    return K.mk_enum("Value", K.XMODEL, variant, x)


def fpv(x):
    return z3.FPVal(x, F64)


# ---- the specification, as an interpreter that forks through I.truth ------------------------------------------


def xp_round(x):
    """closest integer, ties toward +infinity; -0 for -0.5 <= x < 0 (and for -0)"""
    fl = z3.fpRoundToIntegral(z3.RTN(), x)
    d = z3.fpSub(RNE, x, fl)                      # exact
    up = z3.fpAdd(RNE, fl, fpv(1.0))
    r = z3.If(z3.fpGEQ(d, fpv(0.5)), up, fl)
    r = z3.If(z3.And(z3.fpIsZero(r), z3.fpIsNegative(x)), z3.fpMinusZero(F64), r)
    return z3.If(z3.Or(z3.fpIsNaN(x), z3.fpIsInf(x)), x, r)


# substring() is decided compositionally: model::round is proved equal to xp_round by the obligation round.number,
# and inside substring both sides see the same uninterpreted function
XPROUND = z3.Function("xpround", F64, F64)


def is_xml_ws(c):
    return sym.cin_ranges(c, XML_WS)


def spec_number_of_text(I, s):
    """XPath number(string): optional XML white space, optional '-', Number, optional white space; else NaN"""
    t = list(s)
    while t and I.truth(is_xml_ws(t[0].c)):
        t.pop(0)
    while t and I.truth(is_xml_ws(t[-1].c)):
        t.pop()
    body = list(t)
    if body and I.truth(sym.ceq(body[0].c, ord("-"))):
        body = body[1:]
    digits = 0
    dots = 0
    for ch in body:
        if I.truth(sym.cin(ch.c, 0x30, 0x39)):
            digits += 1
        elif I.truth(sym.ceq(ch.c, ord("."))) and dots == 0:
            dots += 1
        else:
            return float("nan")
    if digits == 0:
        return float("nan")
    r = kstd.parse_f64(I, SStr(t))
    if r.variant != "Ok":
        raise kernel.Unsupported("rust refuses an XPath Number")
    return r.fields[0]


def spec_string_of_number(I, x):
    if isinstance(x, float):
        x = kernel.to_fp(x)
    if I.truth(z3.fpIsNaN(x)):
        return kernel.from_pystr("NaN")
    if I.truth(z3.fpIsZero(x)):
        return kernel.from_pystr("0")
    if I.truth(z3.fpIsInf(x)):
        return kernel.from_pystr("-Infinity" if I.truth(z3.fpIsNegative(x)) else "Infinity")
    return kstd.OpaqueStr("f64::to_string", x)     # decimal digits of a finite non-zero double: Rust's Display (never an exponent)


def spec_string(I, v):
    if v.variant == "Text":
        return SStr(v.fields[0])
    if v.variant == "Boolean":
        return kernel.from_pystr("true" if I.truth(v.fields[0]) else "false")
    if v.variant == "Number":
        return spec_string_of_number(I, v.fields[0])
    return SStr()       # empty node-set


def spec_number(I, v):
    if v.variant == "Number":
        return v.fields[0]
    if v.variant == "Boolean":
        return 1.0 if I.truth(v.fields[0]) else 0.0
    if v.variant == "Text":
        return spec_number_of_text(I, v.fields[0])
    return float("nan")


def spec_boolean(I, v):
    if v.variant == "Boolean":
        return v.fields[0]
    if v.variant == "Number":
        x = kernel.to_fp(v.fields[0])
        return z3.Not(z3.Or(z3.fpIsZero(x), z3.fpIsNaN(x)))
    if v.variant == "Text":
        return len(v.fields[0]) > 0
    return False


def find_first(I, s, p):
    for k in range(0, len(s) - len(p) + 1):
        if I.truth(And(*[sym.ceq(s[k + d].c, p[d].c) for d in range(len(p))])):
            return k
    return None


def spec_fn(I, name, args):
    """-> expected Value"""
    if name == "string":
        return V("Text", spec_string(I, args[0]))
    if name == "concat":
        out = SStr()
        for a in args:
            x = spec_string(I, a)
            if isinstance(x, kstd.OpaqueStr):
                out.append(x)
            else:
                out.extend(x)
        return V("Text", out)
    if name in ("starts-with", "contains", "substring-before", "substring-after"):
        a, b = spec_string(I, args[0]), spec_string(I, args[1])
        if isinstance(a, kstd.OpaqueStr) or isinstance(b, kstd.OpaqueStr):
            raise kernel.Unsupported("opaque operand")
        if name == "starts-with":
            return V("Boolean", len(b) <= len(a) and I.truth(And(*[sym.ceq(x.c, y.c) for x, y in zip(a, b)])))
        k = find_first(I, a, b)
        if name == "contains":
            return V("Boolean", k is not None)
        if name == "substring-before":
            return V("Text", SStr(a[:k]) if k is not None else SStr())
        return V("Text", SStr(a[k + len(b):]) if k is not None else SStr())
    if name == "substring":
        s = spec_string(I, args[0])
        p = XPROUND(kernel.to_fp(spec_number(I, args[1])))
        ln = XPROUND(kernel.to_fp(spec_number(I, args[2]))) if len(args) > 2 else None
        out = SStr()
        for i, ch in enumerate(s, start=1):
            pos = fpv(float(i))
            c = z3.fpGEQ(pos, p)
            if ln is not None:
                c = z3.And(c, z3.fpLT(pos, z3.fpAdd(RNE, p, ln)))
            if I.truth(c):
                out.append(ch)
        return V("Text", out)
    if name == "string-length":
        return V("Number", float(len(spec_string(I, args[0]))))
    if name == "normalize-space":
        s = spec_string(I, args[0])
        out, cur = [], SStr()
        for ch in s:
            if I.truth(is_xml_ws(ch.c)):
                if cur:
                    out.append(cur)
                cur = SStr()
            else:
                cur.append(ch)
        if cur:
            out.append(cur)
        r = SStr()
        for k, w in enumerate(out):
            if k:
                r.append(Ch(0x20))
            r.extend(w)
        return V("Text", r)
    if name == "translate":
        s, fr, to = [spec_string(I, a) for a in args]
        out = SStr()
        for ch in s:
            idx = None
            for k, f in enumerate(fr):
                if I.truth(sym.ceq(ch.c, f.c)):
                    idx = k
                    break
            if idx is None:
                out.append(ch)
            elif idx < len(to):
                out.append(to[idx])
        return V("Text", out)
    if name == "boolean":
        return V("Boolean", spec_boolean(I, args[0]))
    if name == "not":
        return V("Boolean", Not(spec_boolean(I, args[0])))
    if name == "true":
        return V("Boolean", True)
    if name == "false":
        return V("Boolean", False)
    if name == "number":
        return V("Number", spec_number(I, args[0]))
    if name == "floor":
        return V("Number", z3.fpRoundToIntegral(z3.RTN(), kernel.to_fp(spec_number(I, args[0]))))
    if name == "ceiling":
        return V("Number", z3.fpRoundToIntegral(z3.RTP(), kernel.to_fp(spec_number(I, args[0]))))
    if name == "round":
        return V("Number", xp_round(kernel.to_fp(spec_number(I, args[0]))))
    raise kernel.Unsupported("no spec for %s" % name)


def spec_op(I, op, a, b):
    x = kernel.to_fp(spec_number(I, a))
    if op == "neg":
        return V("Number", z3.fpNeg(x))
    y = kernel.to_fp(spec_number(I, b))
    f = {"add": lambda: z3.fpAdd(RNE, x, y), "sub": lambda: z3.fpSub(RNE, x, y), "mul": lambda: z3.fpMul(RNE, x, y),
         "div": lambda: z3.fpDiv(RNE, x, y), "rem": lambda: kstd.fmod(x, y)}[op]
    return V("Number", f())


def spec_cmp(I, op, a, b):
    """XPath 1.0 section 3.4 for two scalars"""
    if op in ("eq", "ne"):
        if a.variant == "Boolean" or b.variant == "Boolean":
            r = sym.Iff(spec_boolean(I, a), spec_boolean(I, b))
        elif a.variant == "Number" or b.variant == "Number":
            r = z3.fpEQ(kernel.to_fp(spec_number(I, a)), kernel.to_fp(spec_number(I, b)))
            return r if op == "eq" else z3.Not(r)      # NaN != NaN is true
        else:
            r = kstd.s_eq(I, spec_string(I, a), spec_string(I, b))
        return r if op == "eq" else Not(r)
    x, y = kernel.to_fp(spec_number(I, a)), kernel.to_fp(spec_number(I, b))
    return {"lt": z3.fpLT, "le": z3.fpLEQ, "gt": z3.fpGT, "ge": z3.fpGEQ}[op](x, y)


# ---- obligations ------------------------------------------------------------------------------------------

FN_RUST = {"string": "string", "concat": "concat", "starts-with": "starts_with", "contains": "contains",
           "substring-before": "substring_before", "substring-after": "substring_after", "substring": "substring",
           "string-length": "string_length", "normalize-space": "normalize_space", "translate": "translate",
           "boolean": "boolean", "not": "not", "true": "ftrue", "false": "ffalse", "number": "number", "floor": "floor",
           "ceiling": "ceiling", "round": "round"}
CMP_RUST = {"eq": "equal_value", "ne": "not_equal_value", "lt": "less_than_value", "le": "less_eq_value", "gt": "greater_than_value", "ge": "greater_eq_value"}


# known-finding classes: a constraint that removes the class from the inputs (the class itself is re-witnessed separately)
def excl_neg_zero(vals):
    cs = []
    for v in vals:
        if v.variant == "Number":
            x = v.fields[0]
            cs.append(z3.Not(z3.And(z3.fpIsZero(x), z3.fpIsNegative(x))))
    return And(*cs)


KNOWN_CLASSES = {"neg-zero-to-string": excl_neg_zero}


def mk_arg(I, kind, tag, n):
    """kind: 'T' text of n chars, 'N' number, 'B' boolean"""
    if kind == "T":
        s, c = K.sym_str(tag, n)
        return V("Text", s), And(c, *[Not(sym.c_in_str(ch.c, "'")) for ch in s], *[sym.cin_ranges(ch.c, [(0x9, 0xA), (0xD, 0xD), (0x20, 0xD7FF), (0xE000, 0xFFFD), (0x10000, 0x10FFFF)]) for ch in s])
    if kind == "N":
        return V("Number", z3.FP(tag, F64)), True
    if kind == "B":
        return V("Boolean", z3.Bool(tag)), True
    raise ValueError(kind)


def shapes(tier):
    """(obligation id, callee kind, name, [(kind, len)...])"""
    K2 = 2 if tier == "quick" else 3
    out = []
    lens = range(0, K2 + 1)
    for n in lens:
        out.append(("string-length", "fn", "string-length", [("T", n)]))
        out.append(("normalize-space", "fn", "normalize-space", [("T", n)]))
        out.append(("number.text", "fn", "number", [("T", n)]))
        out.append(("boolean.text", "fn", "boolean", [("T", n)]))
        out.append(("substring.2", "fn", "substring", [("T", n), ("N", 0)]))
        out.append(("substring.3", "fn", "substring", [("T", n), ("N", 0), ("N", 0)]))
        for m in range(0, min(n, 2) + 1):
            for f in ("starts-with", "contains", "substring-before", "substring-after", "concat"):
                out.append((f, "fn", f, [("T", n), ("T", m)]))
        for m in range(0, 3):
            for k in range(0, 3):
                if n <= 2 and (tier == "thorough" or (m <= 2 and k <= 1)):
                    out.append(("translate", "fn", "translate", [("T", n), ("T", m), ("T", k)]))
    for f in ("floor", "ceiling", "round", "number", "boolean", "not", "string"):
        out.append((f + ".number", "fn", f, [("N", 0)]))
    for f in ("number", "boolean", "not", "string"):
        out.append((f + ".boolean", "fn", f, [("B", 0)]))
    out.append(("true", "fn", "true", []))
    out.append(("false", "fn", "false", []))
    out.append(("concat.3", "fn", "concat", [("T", 1), ("N", 0), ("B", 0)]))
    for op in ("add", "sub", "mul", "div", "rem"):
        out.append(("op." + op, "op", op, [("N", 0), ("N", 0)]))
        out.append(("op." + op + ".bool", "op", op, [("B", 0), ("N", 0)]))
    out.append(("op.neg", "op", "neg", [("N", 0)]))
    out.append(("op.neg.bool", "op", "neg", [("B", 0)]))
    for op in CMP_RUST:
        for ka in ("N", "B", "T"):
            for kb in ("N", "B", "T"):
                la = 1 if ka == "T" else 0
                lb = 1 if kb == "T" else 0
                if ka == "T" and kb == "T" and op in ("eq", "ne"):
                    for n in lens:
                        out.append(("cmp.%s.TT" % op, "cmp", op, [("T", n), ("T", n)]))
                        if n:
                            out.append(("cmp.%s.TT" % op, "cmp", op, [("T", n), ("T", n - 1)]))
                elif "T" in (ka, kb) and op in ("eq", "ne"):
                    for n in lens:
                        out.append(("cmp.%s.%s%s" % (op, ka, kb), "cmp", op, [(ka, n if ka == "T" else 0), (kb, n if kb == "T" else 0)]))
                else:
                    out.append(("cmp.%s.%s%s" % (op, ka, kb), "cmp", op, [(ka, la), (kb, lb)]))
    return out


def same_value(I, a, b):
    """impl result vs spec result (both Value enums)"""
    if a.variant != b.variant:
        return False
    x, y = a.fields[0], b.fields[0]
    if a.variant == "Number":
        return kernel.to_fp(x) == kernel.to_fp(y)            # bit identity: NaN == NaN, +0 != -0
    if a.variant == "Boolean":
        return sym.Iff(x, y)
    if a.variant == "Text":
        return kstd.s_eq(I, x, y)
    return False


def run_shape(job):
    oid, kind, name, argspec, profile, timeout_s, excl = job
    out = {"job": (oid, kind, name, argspec, profile), "status": "holds", "paths": 0, "queries": 0, "error": None, "excl": excl}
    t0 = time.time()
    try:
        stubs = {}
        if kind == "fn" and name == "substring":
            stubs["model::round"] = lambda I, x: XPROUND(kernel.to_fp(x))
        I = K.new_interp(profile, stubs=stubs)
        I.files_in_scope = (K.XFUNC, K.XMODEL, K.XEVAL)
        cons = []
        probe = []
        for k, (ak, n) in enumerate(argspec):
            v, c = mk_arg(I, ak, "a%d_" % k, n)
            probe.append(v)
            cons.append(c)
        I.assume(sym.to_z3(And(*cons)))
        for cls in excl:
            I.assume(sym.to_z3(KNOWN_CLASSES[cls](probe)))
        state = {}

        def thunk(I):
            args = [mk_arg(I, ak, "a%d_" % k, n)[0] for k, (ak, n) in enumerate(argspec)]
            state["args"] = args
            if kind == "fn":
                fn = I.dump.fns[(K.XFUNC, FN_RUST[name])]
                r = I.call_fn(K.XFUNC, fn, [SVec(args), "node", "context"])
                if not (isinstance(r, Enum) and r.variant == "Ok"):
                    return ("err", r, None)
                return ("ok", r.fields[0], spec_fn(I, name, args))
            if kind == "op":
                r = I.call_method_of(args[0], name, args)
                return ("ok", r, spec_op(I, name, args[0], args[1] if len(args) > 1 else None))
            if kind == "cmp":
                fn = I.dump.fns[(K.XEVAL, CMP_RUST[name])]
                r = I.call_fn(K.XEVAL, fn, [args[0], args[1]])
                if not (isinstance(r, Enum) and r.variant == "Ok"):
                    return ("err", r, None)
                return ("ok", V("Boolean", r.fields[0]), V("Boolean", spec_cmp(I, name, args[0], args[1])))
        paths = I.explore(thunk)
        out["paths"] = len(paths)

        def post(p):
            if p["kind"] == "panic":
                return False
            tag, r, e = p["value"]
            if tag == "err":
                return False
            return same_value(I, r, e)
        verdict, info, nq = K.decide(I, paths, post, timeout_s)
        out["queries"] = nq + I.feas_queries
        out["fns"] = K.fn_table(I)
        if verdict == "sat":
            mdl, p = info
            out["status"] = "sat"
            w = {"name": name, "kind": kind, "args": [], "profile": profile}
            for v in state["args"] if False else probe:
                x = v.fields[0]
                if v.variant == "Text":
                    w["args"].append(["T", K.model_str(mdl, x)])
                elif v.variant == "Number":
                    w["args"].append(["N", repr(K.model_f64(mdl, x))])
                else:
                    w["args"].append(["B", bool(z3.is_true(mdl.eval(x, model_completion=True)))])
            if p["kind"] == "panic":
                w["model"] = ["panic", p["msg"]]
            else:
                tag, r, e = p["value"]
                w["model"] = [tag, render(mdl, r) if tag == "ok" else repr(r)[:60]]
                w["spec"] = render(mdl, e) if e is not None else None
            w["parse_dependent"] = any(n[0] == "parsed" for n in p.get("notes", []))
            out["witness"] = w
        elif verdict == "unknown":
            out["status"] = "unknown"
            out["error"] = info
    except (kernel.Unsupported, nomsem.Unsupported) as e:
        out["status"] = "unsupported"
        out["error"] = str(e)
    except Exception:
        import traceback
        out["status"] = "unsupported"
        out["error"] = "exception: " + traceback.format_exc()[-600:]
    out["wall"] = time.time() - t0
    return out


def render(m, v):
    x = v.fields[0]
    if v.variant == "Text" and any(isinstance(y, kstd.OpaqueStr) for y in x):
        return ["T?", "segments"]
    if v.variant == "Number":
        return ["N", repr(K.model_f64(m, kernel.to_fp(x)))]
    if v.variant == "Boolean":
        return ["B", x if isinstance(x, bool) else bool(z3.is_true(m.eval(x, model_completion=True)))]
    if isinstance(x, kstd.OpaqueStr):
        return ["T?", repr(K.model_f64(m, kernel.to_fp(x.arg)))]
    return ["T", K.model_str(m, x)]


# ---- replay through xml_xpath::query -----------------------------------------------------------------------


def lit_number(x):
    x = float(x)
    if math.isnan(x):
        return "(0 div 0)"
    if math.isinf(x):
        return "(1 div 0)" if x > 0 else "((0 - 1) div 0)"
    if x == 0.0:
        return "(0 div (0 - 1))" if math.copysign(1.0, x) < 0 else "0"
    from decimal import Decimal
    d = format(Decimal(abs(x)), "f")
    return d if x > 0 else "(0 - %s)" % d


def lit(a):
    k, v = a
    if k == "T":
        return "'%s'" % v
    if k == "N":
        return lit_number(v)
    return "true()" if v else "false()"


OPS = {"add": "+", "sub": "-", "mul": "*", "div": " div ", "rem": " mod ", "eq": "=", "ne": "!=", "lt": "<", "le": "<=", "gt": ">", "ge": ">="}


def expression(w):
    a = [lit(x) for x in w["args"]]
    if w["kind"] == "fn":
        return "%s(%s)" % (w["name"], ", ".join(a))
    if w["name"] == "neg":
        return "-%s" % a[0]
    return "%s%s%s" % (a[0], OPS[w["name"]], a[1])


def parse_debug(d):
    """Debug of model::Value -> ['N', repr] | ['B', bool] | ['T', str]"""
    if d.startswith("Number("):
        t = d[7:-1]
        x = float("nan") if t == "NaN" else float(t)
        return ["N", repr(x)]
    if d.startswith("Boolean("):
        return ["B", d[8:-1] == "true"]
    if d.startswith("Text("):
        return ["T", json.loads(d[5:-1].replace("\\'", "'")) if "\\u{" not in d else None]
    return ["?", d]


def same_rendered(a, b):
    if a[0] == "N" and b[0] == "N":
        x, y = float(a[1]), float(b[1])
        return (math.isnan(x) and math.isnan(y)) or (x == y and math.copysign(1, x) == math.copysign(1, y))
    return a == b


def reproduces(w, rp):
    """does the real evaluator return what the model predicts (which differs from the spec)?"""
    ex = expression(w)
    rr = rp.run({"op": "query", "doc": "<r/>", "input": ex})
    if w["model"][0] == "panic":
        return ("panic" in rr or "died" in rr), ex, rr
    if "panic" in rr or "died" in rr:
        return True, ex, rr
    if w["model"][0] == "err":
        return (not rr.get("ok")), ex, rr
    if not rr.get("ok"):
        return False, ex, rr
    real = parse_debug(rr.get("debug", ""))
    pred = w["model"][1]
    if pred[0] == "T?":
        return True, ex, rr      # opaque prediction: accept the real value if it differs from the spec below
    if real[0] == "T" and real[1] is None:
        real = ["T", rr.get("value")]
    if same_rendered(real, pred):
        return True, ex, rr
    # the model leaves the value of an accepted numeral open: a concrete specified value that the real result
    # contradicts is a demonstration on the real code all the same
    spec = w.get("spec")
    if spec and spec[0] in ("N", "B", "T") and not same_rendered(real, spec) and w.get("parse_dependent"):
        return True, ex, rr
    return False, ex, rr


def concrete_eval(kind, name, cargs):
    """the S-kernel on concrete operands -> rendered value ['N'|'B'|'T', v] or ['panic'|'err', ..]"""
    I = K.new_interp("debug")
    I.files_in_scope = (K.XFUNC, K.XMODEL, K.XEVAL)

    def mk(a):
        k, v = a
        if k == "T":
            return V("Text", kernel.from_pystr(v))
        if k == "N":
            return V("Number", float(v))
        return V("Boolean", bool(v))

    def thunk(I):
        args = [mk(a) for a in cargs]
        if kind == "fn":
            fn = I.dump.fns[(K.XFUNC, FN_RUST[name])]
            return I.call_fn(K.XFUNC, fn, [SVec(args), "node", "context"])
        if kind == "op":
            return Ok(I.call_method_of(args[0], name, args))
        fn = I.dump.fns[(K.XEVAL, CMP_RUST[name])]
        r = I.call_fn(K.XEVAL, fn, [args[0], args[1]])
        return Ok(V("Boolean", r.fields[0])) if r.variant == "Ok" else r
    paths = I.explore(thunk)
    if len(paths) != 1:
        raise kernel.Unsupported("concrete run forked")
    p = paths[0]
    if p["kind"] == "panic":
        return ["panic", p["msg"]]
    r = p["value"]
    if r.variant != "Ok":
        return ["err", repr(r)[:60]]
    v = r.fields[0]
    x = v.fields[0]
    if v.variant == "Number":
        return ["N", repr(float(x))]
    if v.variant == "Boolean":
        return ["B", bool(x)]
    if isinstance(x, kstd.OpaqueStr) or any(isinstance(y, kstd.OpaqueStr) for y in x):
        return ["T?", None]
    return ["T", kernel.concrete_str(x)]


def translator_validation(rp, seed, n):
    import random
    rng = random.Random(seed)
    strs = ["", " ", "a", "ab", "a b", "  x  ", "\u00e9", "\U0001F600z", "12", " 7 ", "1.5", "-3", "+1", "1e2", ".5", "abc", "b", "\t\n", "\u00a0"]
    nums = [0.0, -0.0, 1.0, 1.5, -1.5, 0.5, -0.5, 2.5, 3.0, float("nan"), float("inf"), float("-inf"), 1e300, 100.0, 0.1, 123456789.125, 0.49999999999999994, 4503599627370497.0]
    fns1 = ["string-length", "normalize-space", "number", "boolean", "not", "string", "floor", "ceiling", "round"]
    fns2 = ["starts-with", "contains", "substring-before", "substring-after", "concat"]
    done = 0

    def val(kinds="TNB"):
        k = rng.choice(kinds)
        return [k, rng.choice(strs) if k == "T" else repr(rng.choice(nums)) if k == "N" else rng.choice([True, False])]
    for _ in range(n):
        c = rng.randrange(6)
        if c == 0:
            kind, name, args = "fn", rng.choice(fns1), [val()]
        elif c == 1:
            kind, name, args = "fn", rng.choice(fns2), [val("T"), val("T")]
        elif c == 2:
            kind, name, args = "fn", "substring", [val("T"), val("N")] + ([val("N")] if rng.random() < 0.6 else [])
        elif c == 3:
            kind, name, args = "fn", "translate", [val("T"), val("T"), val("T")]
        elif c == 4:
            kind, name, args = "op", rng.choice(["add", "sub", "mul", "div", "rem", "neg"]), [val("NB"), val("NB")]
            if name == "neg":
                args = args[:1]
        else:
            kind, name, args = "cmp", rng.choice(list(CMP_RUST)), [val(), val()]
        if any(a[0] == "T" and "'" in a[1] for a in args):
            continue
        pred = concrete_eval(kind, name, args)
        w = {"kind": kind, "name": name, "args": args, "model": ["ok", pred] if pred[0] in ("N", "B", "T", "T?") else [pred[0], pred[1]]}
        ok, ex, rr = reproduces(w, rp)
        if not ok:
            raise common.Inconclusive("model mismatch on %s: interpreter %s, real %s" % (ex, pred, str(rr)[:160]))
        done += 1
    return done


def arity_obligations(rep, I):
    """func::table() ranges against XPath 1.0 section 4, read from the dump"""
    fn = I.dump.fns[(K.XFUNC, "table")]
    rep.functions["xpath/src/eval/func.rs table"] = I.dump.fn_hash(fn)
    entries = {}

    def walk(v):
        if isinstance(v, dict):
            if v.get("k") == "struct" and v["path"]["segs"][-1] == "Entry":
                f = {x["member"]: x["e"] for x in v["fields"]}
                nm = f["local_part"]
                while nm["k"] == "mcall":
                    nm = nm["recv"]
                rg = f["args"]
                lo = int(rg["start"]["v"])
                hi = None if rg["end"]["k"] == "path" else int(rg["end"]["v"])
                entries[nm["v"]] = (lo, hi, f["call"]["args"][0]["segs"][-1])
            for x in v.values():
                walk(x)
        elif isinstance(v, list):
            for x in v:
                walk(x)
    walk(fn["body"])
    bad = []
    for name, (lo, hi) in SPEC_ARITY.items():
        if name not in entries:
            bad.append("%s missing" % name)
        elif entries[name][:2] != (lo, hi):
            bad.append("%s admits %s..%s arguments, XPath 1.0 says %s..%s" % (name, entries[name][0], entries[name][1], lo, hi))
    return entries, bad


def main():
    args = common.args_for("C09")
    rep = common.Report(args)
    try:
        rp = replay.Replay()
    except replay.ReplayError as e:
        rep.inconclusive.append(str(e))
        return rep.finish()
    if args.replay:
        w = json.load(open(args.replay))
        ok, ex, rr = reproduces(w, rp)
        print("replay %s -> %s" % (ex, rr))
        if ok:
            print("VIOLATION property=C09 replay=%s" % args.replay)
            return 1
        print("does not reproduce on the current tree")
        return 0
    timeout_s = 120 if args.tier == "quick" else 900
    rep.bounds = {"strings": "exactly n scalar values, n <= %d, any XML Char except the apostrophe" % (2 if args.tier == "quick" else 3),
                  "numbers": "every f64 (NaN, +-0, +-inf, subnormals)", "profiles": ["debug"],
                  "outside": "node-set operands; digits of finite non-zero numbers in number->string (Rust Display, never an exponent) and the value of an accepted numeral in string->number (Rust dec2flt) are trusted; `mod` is an uninterpreted fmod on both sides; id(), lang(), name functions"}
    rep.assumptions += ["std models of engine/sx/kstd.py (str::parse::<f64> accept language, f64::round = ties away, `as usize` saturating, split_whitespace = Unicode White_Space, str::len in bytes, split_at on byte boundaries)",
                        "XPath 1.0 sections 3.4, 3.5, 4.2-4.4 as written in this file (spec_fn, spec_op, spec_cmp, xp_round)"]
    known_open, _ = common.known_findings("C09")
    try:
        rep.tv_cases = translator_validation(rp, args.seed, 150 if args.tier == "quick" else 600)
        rep.extra["translator_validation"] = "%d concrete applications: S-kernel (std models) == xml_xpath::query" % rep.tv_cases
    except (common.Inconclusive, kernel.Unsupported) as e:
        rep.inconclusive.append(str(e))
        return rep.finish()
    I0 = K.new_interp("debug")
    try:
        entries, bad = arity_obligations(rep, I0)
    except Exception as e:  # noqa
        rep.inconclusive.append("arity table: %s" % e)
        entries, bad = {}, []
    rep.obligation("C09.s.arity", "violated" if bad else "holds", reach="sat", detail=bad)
    if bad:
        rep.violation("C09.s.arity", {"kind": "arity", "detail": bad, "name": "arity", "args": [], "model": ["err", ""]}, "; ".join(bad))
    known = tuple(k["class"] for k in known_open if k.get("class") in KNOWN_CLASSES)
    jobs = [(oid, kind, name, argspec, "debug", timeout_s, known) for oid, kind, name, argspec in shapes(args.tier)]
    # the listed findings are re-witnessed on their canonical obligation, with nothing excluded
    for cls in known:
        if cls == "neg-zero-to-string":
            jobs.append(("known:" + cls, "fn", "string", [("N", 0)], "debug", timeout_s, ()))
    with mp.Pool(args.jobs) as pool:
        results = pool.map(run_shape, jobs, chunksize=1)
    reported = set()
    for res in results:
        oid0, kind, name, argspec, profile = res["job"]
        oid = "C09.s.%s[%s]" % (oid0, ",".join("%s%d" % (a, n) for a, n in argspec))
        rep.queries += res["queries"]
        rep.extra["paths"] = rep.extra.get("paths", 0) + res["paths"]
        rep.functions.update(res.get("fns", {}))
        if res["status"] in ("unsupported", "unknown"):
            rep.obligation(oid, "inconclusive", error=res["error"])
            rep.inconclusive.append("%s: %s" % (oid, str(res["error"])[:200]))
            continue
        if res["status"] == "holds":
            if oid0.startswith("known:"):
                rep.extra.setdefault("known_classes_without_witness", []).append(oid0[6:])
                continue
            rep.obligation(oid, "holds", reach="sat" if res["paths"] else "unsat", paths=res["paths"], wall_s=round(res["wall"], 2), excluded=list(res.get("excl", ())))
            continue
        w = res["witness"]
        ok, ex, rr = reproduces(w, rp)
        rep.replays += 1
        if not ok:
            rep.obligation(oid, "inconclusive", witness=w)
            rep.inconclusive.append("%s: model does not reproduce: %s -> %s (model %s)" % (oid, ex, str(rr)[:120], w["model"]))
            continue
        cls = oid0.split(".")[0] if kind == "fn" else oid0
        kf = [k for k in known_open if oid0 == "known:" + str(k.get("class"))]
        if kf:
            rep.obligation(oid, "known-finding", witness=w)
            if cls not in reported:
                reported.add(cls)
                rep.known_finding(kf[0], "%s class=%s witness=%s -> %s (XPath 1.0: %s)" % (kf[0].get("what", ""), cls, ex, rr.get("debug", rr), w.get("spec")))
            continue
        rep.obligation(oid, "violated", witness=w, wall_s=round(res["wall"], 2))
        if cls not in reported:
            reported.add(cls)
            w["property"] = "C09"
            rep.violation(oid, w, "%s evaluates to %s, XPath 1.0 prescribes %s" % (ex, rr.get("debug", str(rr)[:80]), w.get("spec")))
        else:
            rep.violations.append((oid, None, ex))
    rep.samples += [{"obligation": r["job"][0], "args": r["job"][3], "paths": r["paths"]} for r in results[:8]]
    rp.close()
    return rep.finish()


if __name__ == "__main__":
    sys.exit(main())
