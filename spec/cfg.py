"""Nondeterministic recognizer combinators over a sym.Input, used by the reference grammars.

Unlike the nom semantics in engine/sx/nomsem.py there is no ordered choice and no greedy
commitment here: `ends(i)` is the set of *all* positions at which some derivation starting at
i can end (position -> condition, conditions not necessarily exclusive). That is the plain
context-free reading of the EBNF in the Recommendations.
"""
import sys
import os

sys.path.insert(0, os.path.join(os.path.dirname(__file__), "..", "engine"))
from sx import sym  # noqa: E402
from sx.sym import And, Or, Not  # noqa: E402


class E(dict):
    def add(self, j, cond):
        if cond is False:
            return
        old = self.get(j)
        self[j] = cond if old is None else Or(old, cond)

    def ok(self):
        return Or(*self.values())


class Rec:
    """base class: memoised nonterminals as methods decorated with @nt"""

    def __init__(self, inp):
        self.inp = inp
        self.L = inp.L
        self.memo = {}

    def c(self, i):
        return self.inp[i]

    # --- primitives -------------------------------------------------------------------------

    def tok(self, s, i):
        out = E()
        if i + len(s) <= self.L:
            out.add(i + len(s), And(*[sym.ceq(self.inp[i + k], ord(ch)) for k, ch in enumerate(s)]))
        return out

    def at(self, s, i):
        """condition: literal s occurs at i"""
        if i + len(s) > self.L:
            return False
        return And(*[sym.ceq(self.inp[i + k], ord(ch)) for k, ch in enumerate(s)])

    def one(self, pred, i):
        out = E()
        if i < self.L:
            out.add(i + 1, pred(self.inp[i]))
        return out

    def run(self, pred, i, least=0, maximal=True):
        """run of chars satisfying pred; maximal: the run stops only where pred fails or at end"""
        out = E()
        acc = True
        for j in range(i, self.L + 1):
            if j - i >= least:
                if not maximal:
                    out.add(j, acc)
                else:
                    stop = True if j == self.L else Not(pred(self.inp[j]))
                    out.add(j, And(acc, stop))
            if j < self.L:
                acc = And(acc, pred(self.inp[j]))
                if acc is False:
                    break
        return out

    def seq(self, i, *ps):
        cur = E({i: True})
        for p in ps:
            nxt = E()
            for j, cj in cur.items():
                for k, ck in p(j).items():
                    nxt.add(k, And(cj, ck))
            cur = nxt
            if not cur:
                break
        return cur

    def alt(self, i, *ps):
        out = E()
        for p in ps:
            for j, c in p(i).items():
                out.add(j, c)
        return out

    def opt(self, i, p):
        out = E({i: True})
        for j, c in p(i).items():
            out.add(j, c)
        return out

    def star(self, i, p):
        reach = {i: True}
        out = E()
        for j in range(i, self.L + 1):
            h = reach.pop(j, None)
            if h is None:
                continue
            out.add(j, h)
            for k, ck in p(j).items():
                if k > j:
                    old = reach.get(k)
                    v = And(h, ck)
                    if v is not False:
                        reach[k] = v if old is None else Or(old, v)
        return out

    def plus(self, i, p):
        return self.seq(i, p, lambda j: self.star(j, p))

    def same(self, a, b, m):
        """c[a..a+m) == c[b..b+m)"""
        if a + m > self.L or b + m > self.L:
            return False
        return And(*[sym.ceq(self.inp[a + k], self.inp[b + k]) for k in range(m)])

    def is_word(self, a, m, word):
        if m != len(word):
            return False
        return self.at(word, a)


def nt(f):
    """memoise a nonterminal method on (name, args)"""
    name = f.__name__

    def wrapper(self, *args):
        key = (name,) + args
        r = self.memo.get(key)
        if r is None:
            r = f(self, *args)
            self.memo[key] = r
        return r

    wrapper.__name__ = name
    return wrapper
