"""Reference recognizer for XML 1.0 (Fifth Edition) documents with the well-formedness
constraints that C01/C02 name, written from the Recommendation (and Namespaces in XML 1.0
3rd ed. for the strict name syntax), not from the repository.

mode = "lenient": anything some reading of XML 1.0 allows (names are Names; colons anywhere).
        Used as the consequent of C02 ("accepted => well-formed").
mode = "strict":  well-formed under every reading and inside the supported profile of C01:
        element/attribute/doctype names are QNames, PI targets / entity / notation names are
        NCNames, no parameter entities. Used as the antecedent of C01.

declared: None  -> entity references must be predefined, unless the document has a DOCTYPE, in
                   which case (lenient) any Name is allowed / (strict) still predefined only;
          list  -> concrete declared general-entity names (template mode).
"""
from cfg import Rec, E, nt, sym, And, Or, Not

# --- character classes, transcribed from the productions ---------------------------------------

CHAR = [(0x9, 0x9), (0xA, 0xA), (0xD, 0xD), (0x20, 0xD7FF), (0xE000, 0xFFFD), (0x10000, 0x10FFFF)]  # [2]
NAME_START = [(0x3A, 0x3A), (0x41, 0x5A), (0x5F, 0x5F), (0x61, 0x7A), (0xC0, 0xD6), (0xD8, 0xF6), (0xF8, 0x2FF),
              (0x370, 0x37D), (0x37F, 0x1FFF), (0x200C, 0x200D), (0x2070, 0x218F), (0x2C00, 0x2FEF),
              (0x3001, 0xD7FF), (0xF900, 0xFDCF), (0xFDF0, 0xFFFD), (0x10000, 0xEFFFF)]  # [4]
NAME_EXTRA = [(0x2D, 0x2D), (0x2E, 0x2E), (0x30, 0x39), (0xB7, 0xB7), (0x300, 0x36F), (0x203F, 0x2040)]  # [4a]
NAME_CHAR = NAME_START + NAME_EXTRA
PUBID = [(0x20, 0x20), (0xD, 0xD), (0xA, 0xA), (0x61, 0x7A), (0x41, 0x5A), (0x30, 0x39)] + \
        [(ord(ch), ord(ch)) for ch in "-'()+,./:=?;!*#@$_%"]  # [13]
ENC_START = [(0x41, 0x5A), (0x61, 0x7A)]  # [81]
ENC_REST = [(0x41, 0x5A), (0x61, 0x7A), (0x30, 0x39), (0x2E, 0x2E), (0x5F, 0x5F), (0x2D, 0x2D)]
WS = [(0x20, 0x20), (0x9, 0x9), (0xD, 0xD), (0xA, 0xA)]  # [3]
DIGIT = [(0x30, 0x39)]
HEX = [(0x30, 0x39), (0x41, 0x46), (0x61, 0x66)]
PREDEFINED = ["lt", "gt", "amp", "apos", "quot"]


def in_ranges(ranges, exclude=""):
    def p(c):
        v = sym.cin_ranges(c, ranges)
        if exclude:
            v = And(v, Not(sym.c_in_str(c, exclude)))
        return v
    return p


is_char = in_ranges(CHAR)
is_name_start = in_ranges(NAME_START)
is_name_char = in_ranges(NAME_CHAR)
is_ncname_start = in_ranges(NAME_START, ":")
is_ncname_char = in_ranges(NAME_CHAR, ":")
is_ws = in_ranges(WS)
is_pubid = in_ranges(PUBID)
is_digit = in_ranges(DIGIT)
is_hex = in_ranges(HEX)


def py_in(ranges, o):
    return any(lo <= o <= hi for lo, hi in ranges)


class XmlRef(Rec):
    def __init__(self, inp, mode="lenient", declared=None):
        Rec.__init__(self, inp)
        assert mode in ("lenient", "strict")
        self.mode = mode
        self.strict = mode == "strict"
        self.declared = declared
        # known-finding classes: each name switches one constraint of the reference off, so that a
        # query can be decided "apart from" a recorded defect (never used for the strict language)
        self.relax = set()

    # --- lexical ----------------------------------------------------------------------------

    @nt
    def S(self, i):          # S, maximal (never followed by white space in this grammar)
        return self.run(is_ws, i, 1)

    @nt
    def S0(self, i):         # S?
        return self.run(is_ws, i, 0)

    def name_exact(self, i, m, kind):
        """c[i..i+m) is a Name (kind 'name'), NCName ('nc') or QName ('q')"""
        if m < 1 or i + m > self.L:
            return False
        key = ("name_exact", i, m, kind)
        r = self.memo.get(key)
        if r is not None:
            return r
        if kind == "name":
            r = And(is_name_start(self.c(i)), *[is_name_char(self.c(i + k)) for k in range(1, m)])
        elif kind == "rname":   # relaxed: any non-empty run of name characters
            r = And(*[is_name_char(self.c(i + k)) for k in range(m)])
        elif kind == "nc":
            r = And(is_ncname_start(self.c(i)), *[is_ncname_char(self.c(i + k)) for k in range(1, m)])
        else:
            alts = [self.name_exact(i, m, "nc")]
            for p in range(1, m - 1):   # prefix length p, colon at i+p, local part length m-p-1 >= 1
                alts.append(And(self.name_exact(i, p, "nc"), sym.ceq(self.c(i + p), 0x3A), self.name_exact(i + p + 1, m - p - 1, "nc")))
            r = Or(*alts)
        self.memo[key] = r
        return r

    def names(self, i, kind):
        """all (m, cond) such that a name of that kind occupies exactly c[i..i+m) and is not
        followed by a further name character (maximal)"""
        key = ("names", i, kind)
        r = self.memo.get(key)
        if r is not None:
            return r
        out = []
        for m in range(1, self.L - i + 1):
            c = self.name_exact(i, m, kind)
            if c is False:
                # validity as a Name is monotone in the prefix: once false, false for every longer m
                if self.name_exact(i, m, "rname") is False:
                    break
                continue
            nxt = True if i + m == self.L else Not(is_name_char(self.c(i + m)))
            c = And(c, nxt)
            if c is not False:
                out.append((m, c))
        self.memo[key] = out
        return out

    def name_ends(self, i, kind):
        out = E()
        for m, c in self.names(i, kind):
            out.add(i + m, c)
        return out

    def kind_elem(self):
        return "q" if self.strict else "name"

    def kind_plain(self):
        if self.strict:
            return "nc"
        return "rname" if "name-first-char" in self.relax else "name"

    @nt
    def Eq(self, i):
        return self.seq(i, self.S0, lambda j: self.tok("=", j), self.S0)

    # --- references -------------------------------------------------------------------------

    def _num_is_char(self, i, m, radix):
        """digits c[i..i+m) in the given radix denote a Char [2]"""
        import z3
        W = 40
        digs = []
        for k in range(m):
            c = self.c(i + k)
            if isinstance(c, int):
                try:
                    digs.append(int(chr(c), radix))
                except ValueError:
                    digs.append(0)
            else:
                z = z3.ZeroExt(W - sym.CW, c)
                if radix == 10:
                    digs.append(z - 0x30)
                else:
                    digs.append(z3.If(z3.ULE(z, 0x39), z - 0x30, z3.If(z3.ULE(z, 0x46), z - 0x41 + 10, z - 0x61 + 10)))
        # leading zeros are allowed and the number may be arbitrarily long; saturate
        val = 0
        over = False
        for d in digs:
            if isinstance(val, int) and isinstance(d, int):
                val = val * radix + d
                if val > 0x10FFFF:
                    val = 0x110000
                continue
            if isinstance(val, int):
                val = z3.BitVecVal(val, W)
            if isinstance(d, int):
                d = z3.BitVecVal(d, W)
            nv = val * radix + d
            val = z3.If(z3.UGT(nv, 0x10FFFF), z3.BitVecVal(0x110000, W), nv)
        if isinstance(val, int):
            return py_in(CHAR, val)
        return Or(*[And(z3.UGE(val, lo), z3.ULE(val, hi)) if lo != hi else val == lo for lo, hi in CHAR])

    @nt
    def CharRef(self, i):
        out = E()
        if self.at("&#x", i) is not False:
            for j, cj in self.run(is_hex, i + 3, 1).items():
                out.add(j + 1, And(self.at("&#x", i), cj, self.at(";", j), self._num_is_char(i + 3, j - i - 3, 16)))
        if self.at("&#", i) is not False:
            for j, cj in self.run(is_digit, i + 2, 1).items():
                out.add(j + 1, And(self.at("&#", i), cj, self.at(";", j), self._num_is_char(i + 2, j - i - 2, 10)))
        return out

    def entity_name_ok(self, i, m, in_doc_with_dtd):
        pre = Or(*[self.is_word(i, m, w) for w in PREDEFINED])
        if self.declared is not None:
            return Or(pre, *[self.is_word(i, m, w) for w in self.declared])
        if in_doc_with_dtd and not self.strict:
            return True
        return pre

    def EntityRef(self, i, dtd):
        key = ("EntityRef", i, dtd)
        r = self.memo.get(key)
        if r is not None:
            return r
        out = E()
        amp = self.at("&", i)
        if amp is not False:
            for m, cm in self.names(i + 1, self.kind_plain()):
                out.add(i + 1 + m + 1, And(amp, cm, self.at(";", i + 1 + m), self.entity_name_ok(i + 1, m, dtd)))
        self.memo[key] = out
        return out

    def Reference(self, i, dtd):
        return self.alt(i, lambda j: self.EntityRef(j, dtd), self.CharRef)

    @nt
    def PEReference(self, i):
        out = E()
        pc = self.at("%", i)
        if pc is not False:
            for m, cm in self.names(i + 1, self.kind_plain()):
                out.add(i + 1 + m + 1, And(pc, cm, self.at(";", i + 1 + m)))
        return out

    # --- literals ---------------------------------------------------------------------------

    def AttValue(self, i, dtd):
        key = ("AttValue", i, dtd)
        r = self.memo.get(key)
        if r is not None:
            return r
        out = E()
        for q in "\"'":
            qc = self.at(q, i)
            if qc is False:
                continue
            body = in_ranges(CHAR, "<&" + q)
            piece = lambda j, body=body: self.alt(j, lambda k: self.one(body, k), lambda k: self.Reference(k, dtd))
            for j, cj in self.star(i + 1, piece).items():
                out.add(j + 1, And(qc, cj, self.at(q, j)))
        self.memo[key] = out
        return out

    @nt
    def EntityValue(self, i):
        out = E()
        for q in "\"'":
            qc = self.at(q, i)
            if qc is False:
                continue
            body = in_ranges(CHAR, "%&" + q)
            # entity references inside an entity value are bypassed, they need not be declared yet;
            # a PEReference here would be inside a markup declaration of the internal subset
            # (WFC: PEs in Internal Subset) and is therefore not allowed in either mode
            def eref(k):
                o = E()
                a = self.at("&", k)
                if a is not False:
                    for m, cm in self.names(k + 1, self.kind_plain()):
                        o.add(k + m + 2, And(a, cm, self.at(";", k + 1 + m)))
                return o
            if "pe-in-entity-value" in self.relax:
                piece = lambda j, body=body: self.alt(j, lambda k: self.one(body, k), eref, self.CharRef, self.PEReference)
            else:
                piece = lambda j, body=body: self.alt(j, lambda k: self.one(body, k), eref, self.CharRef)
            for j, cj in self.star(i + 1, piece).items():
                out.add(j + 1, And(qc, cj, self.at(q, j)))
        return out

    @nt
    def SystemLiteral(self, i):
        out = E()
        for q in "\"'":
            qc = self.at(q, i)
            if qc is False:
                continue
            for j, cj in self.run(in_ranges(CHAR, q), i + 1, 0).items():
                out.add(j + 1, And(qc, cj, self.at(q, j)))
        return out

    @nt
    def PubidLiteral(self, i):
        out = E()
        for q in "\"'":
            qc = self.at(q, i)
            if qc is False:
                continue
            pred = in_ranges(PUBID, "'" if q == "'" else "")
            for j, cj in self.run(pred, i + 1, 0).items():
                out.add(j + 1, And(qc, cj, self.at(q, j)))
        return out

    # --- character data, comments, PIs, CDATA -------------------------------------------------

    @nt
    def CharData(self, i):
        """[^<&]* without ']]>' ; all prefixes are derivations (not maximal)"""
        out = E()
        pred = in_ranges(CHAR, "<&")
        acc = True
        for j in range(i, self.L + 1):
            out.add(j, acc)
            if j < self.L:
                acc = And(acc, pred(self.c(j)))
                # no ']]>' ending at j+1
                if j - 2 >= i:
                    acc = And(acc, Not(self.at("]]>", j - 2)))
                if acc is False:
                    break
        return out

    @nt
    def Comment(self, i):
        out = E()
        st = self.at("<!--", i)
        if st is False:
            return out
        nd = in_ranges(CHAR, "-")
        piece = lambda j: self.alt(j, lambda k: self.one(nd, k), lambda k: self.seq(k, lambda x: self.tok("-", x), lambda x: self.one(nd, x)))
        for j, cj in self.star(i + 4, piece).items():
            out.add(j + 3, And(st, cj, self.at("-->", j)))
        return out

    def pi_target(self, i):
        """(m, cond) list: PITarget = Name - (('X'|'x')('M'|'m')('L'|'l'))"""
        out = []
        for m, cm in self.names(i, self.kind_plain()):
            if m == 3:
                isxml = And(sym.c_in_str(self.c(i), "Xx"), sym.c_in_str(self.c(i + 1), "Mm"), sym.c_in_str(self.c(i + 2), "Ll"))
                cm = And(cm, Not(isxml))
            if cm is not False:
                out.append((m, cm))
        return out

    @nt
    def PI(self, i):
        out = E()
        st = self.at("<?", i)
        if st is False:
            return out
        for m, cm in self.pi_target(i + 2):
            p = i + 2 + m
            out.add(p + 2, And(st, cm, self.at("?>", p)))
            # S then Char* without '?>'
            if p < self.L:
                ws1 = is_ws(self.c(p))
                acc = And(st, cm, ws1)
                for j in range(p + 1, self.L + 1):
                    if acc is False:
                        break
                    out.add(j + 2, And(acc, self.at("?>", j)))
                    if j < self.L:
                        acc = And(acc, is_char(self.c(j)), Not(self.at("?>", j)))
        return out

    @nt
    def CDSect(self, i):
        out = E()
        st = self.at("<![CDATA[", i)
        if st is False:
            return out
        acc = st
        for j in range(i + 9, self.L + 1):
            if acc is False:
                break
            e = self.at("]]>", j)
            out.add(j + 3, And(acc, e))
            if j < self.L:
                acc = And(acc, is_char(self.c(j)), Not(e))
        return out

    # --- elements ---------------------------------------------------------------------------

    def differs(self, a, m, b, n):
        if m != n:
            return True
        return Not(self.same(a, b, m))

    def tag_rest(self, p, seen, dtd):
        """after the element name: (S Attribute)* S? then '>' or '/>' with pairwise distinct
        attribute names. returns (open_ends, empty_ends)"""
        key = ("tag_rest", p, seen, dtd)
        r = self.memo.get(key)
        if r is not None:
            return r
        op, em = E(), E()
        for q, cq in self.S0(p).items():
            op.add(q + 1, And(cq, self.at(">", q)))
            em.add(q + 2, And(cq, self.at("/>", q)))
        for q, cq in self.S(p).items():
            for m, cm in self.names(q, self.kind_elem()):
                distinct = True if "dup-attr" in self.relax else And(*[self.differs(q, m, a, n) for a, n in seen])
                base = And(cq, cm, distinct)
                if base is False:
                    continue
                for r1, c1 in self.Eq(q + m).items():
                    for r2, c2 in self.AttValue(r1, dtd).items():
                        g = And(base, c1, c2)
                        if g is False:
                            continue
                        o2, e2 = self.tag_rest(r2, seen + ((q, m),), dtd)
                        for k, ck in o2.items():
                            op.add(k, And(g, ck))
                        for k, ck in e2.items():
                            em.add(k, And(g, ck))
        self.memo[key] = (op, em)
        return op, em

    def etag(self, t, a, m):
        """'</' Name S? '>' with the name equal to c[a..a+m)"""
        out = E()
        st = And(self.at("</", t), self.same(a, t + 2, m))
        if st is False:
            return out
        for q, cq in self.S0(t + 2 + m).items():
            out.add(q + 1, And(st, cq, self.at(">", q)))
        return out

    def element(self, i, dtd):
        key = ("element", i, dtd)
        r = self.memo.get(key)
        if r is not None:
            return r
        out = E()
        self.memo[key] = out   # recursion guard (never re-entered at the same i: '<' is consumed)
        lt = self.at("<", i)
        if lt is not False:
            for m, cm in self.names(i + 1, self.kind_elem()):
                op, em = self.tag_rest(i + 1 + m, (), dtd)
                g = And(lt, cm)
                for k, ck in em.items():
                    out.add(k, And(g, ck))
                for s, cs in op.items():
                    gs = And(g, cs)
                    if gs is False:
                        continue
                    for t, ct in self.content(s, dtd).items():
                        gt = And(gs, ct)
                        if gt is False:
                            continue
                        for k, ck in self.etag(t, i + 1, m).items():
                            out.add(k, And(gt, ck))
        return out

    def content(self, i, dtd):
        key = ("content", i, dtd)
        r = self.memo.get(key)
        if r is not None:
            return r
        item = lambda j: self.alt(j, lambda k: self.element(k, dtd), lambda k: self.Reference(k, dtd), self.CDSect, self.PI, self.Comment)
        cell = lambda j: self.seq(j, item, self.CharData)
        r = self.seq(i, self.CharData, lambda j: self.star(j, cell))
        self.memo[key] = r
        return r

    # --- prolog / DTD -------------------------------------------------------------------------

    @nt
    def VersionNum(self, i):
        return self.seq(i, lambda j: self.tok("1.", j), lambda j: self.run(is_digit, j, 1))

    def quoted(self, i, p):
        out = E()
        for q in "\"'":
            qc = self.at(q, i)
            if qc is False:
                continue
            for j, cj in p(i + 1).items():
                out.add(j + 1, And(qc, cj, self.at(q, j)))
        return out

    @nt
    def XMLDecl(self, i):
        ver = lambda j: self.seq(j, self.S, lambda k: self.tok("version", k), self.Eq, lambda k: self.quoted(k, self.VersionNum))
        encname = lambda j: self.seq(j, lambda k: self.one(in_ranges(ENC_START), k), lambda k: self.run(in_ranges(ENC_REST), k, 0))
        enc = lambda j: self.seq(j, self.S, lambda k: self.tok("encoding", k), self.Eq, lambda k: self.quoted(k, encname))
        yn = lambda j: self.alt(j, lambda k: self.tok("yes", k), lambda k: self.tok("no", k))
        sd = lambda j: self.seq(j, self.S, lambda k: self.tok("standalone", k), self.Eq, lambda k: self.quoted(k, yn))
        return self.seq(i, lambda j: self.tok("<?xml", j), ver, lambda j: self.opt(j, enc), lambda j: self.opt(j, sd), self.S0, lambda j: self.tok("?>", j))

    @nt
    def Misc(self, i):
        return self.alt(i, self.Comment, self.PI, self.S)

    @nt
    def ExternalID(self, i):
        return self.alt(i,
                        lambda j: self.seq(j, lambda k: self.tok("SYSTEM", k), self.S, self.SystemLiteral),
                        lambda j: self.seq(j, lambda k: self.tok("PUBLIC", k), self.S, self.PubidLiteral, self.S, self.SystemLiteral))

    @nt
    def cp(self, i):
        nm = lambda j: self.name_ends(j, self.kind_elem())
        occ = lambda j: self.opt(j, lambda k: self.one(lambda c: sym.c_in_str(c, "?*+"), k))
        return self.seq(i, lambda j: self.alt(j, nm, self.choice, self.seq_), occ)

    def _group(self, i, sepch, at_least):
        sep = lambda j: self.seq(j, self.S0, lambda k: self.tok(sepch, k), self.S0, self.cp)
        tail = (lambda j: self.plus(j, sep)) if at_least else (lambda j: self.star(j, sep))
        return self.seq(i, lambda j: self.tok("(", j), self.S0, self.cp, tail, self.S0, lambda j: self.tok(")", j))

    @nt
    def choice(self, i):
        return self._group(i, "|", True)

    @nt
    def seq_(self, i):
        return self._group(i, ",", False)

    @nt
    def contentspec(self, i):
        occ = lambda j: self.opt(j, lambda k: self.one(lambda c: sym.c_in_str(c, "?*+"), k))
        children = lambda j: self.seq(j, lambda k: self.alt(k, self.choice, self.seq_), occ)
        nm = lambda j: self.name_ends(j, self.kind_elem())
        mixed1 = lambda j: self.seq(j, lambda k: self.tok("(", k), self.S0, lambda k: self.tok("#PCDATA", k),
                                    lambda k: self.star(k, lambda x: self.seq(x, self.S0, lambda y: self.tok("|", y), self.S0, nm)),
                                    self.S0, lambda k: self.tok(")*", k))
        mixed2 = lambda j: self.seq(j, lambda k: self.tok("(", k), self.S0, lambda k: self.tok("#PCDATA", k), self.S0, lambda k: self.tok(")", k))
        return self.alt(i, lambda j: self.tok("EMPTY", j), lambda j: self.tok("ANY", j), mixed1, mixed2, children)

    @nt
    def elementdecl(self, i):
        nm = lambda j: self.name_ends(j, self.kind_elem())
        return self.seq(i, lambda j: self.tok("<!ELEMENT", j), self.S, nm, self.S, self.contentspec, self.S0, lambda j: self.tok(">", j))

    @nt
    def AttType(self, i):
        kw = [lambda j, w=w: self.tok(w, j) for w in ("CDATA", "IDREFS", "IDREF", "ID", "ENTITIES", "ENTITY", "NMTOKENS", "NMTOKEN")]
        nmtoken = lambda j: self.run(is_name_char, j, 1)
        nm = lambda j: self.name_ends(j, self.kind_plain())

        def lst(j, item):
            return self.seq(j, lambda k: self.tok("(", k), self.S0, item,
                            lambda k: self.star(k, lambda x: self.seq(x, self.S0, lambda y: self.tok("|", y), self.S0, item)),
                            self.S0, lambda k: self.tok(")", k))
        notation = lambda j: self.seq(j, lambda k: self.tok("NOTATION", k), self.S, lambda k: lst(k, nm))
        enum = lambda j: lst(j, nmtoken)
        return self.alt(i, notation, enum, *kw)

    @nt
    def DefaultDecl(self, i):
        fixed = lambda j: self.seq(j, lambda k: self.opt(k, lambda x: self.seq(x, lambda y: self.tok("#FIXED", y), self.S)),
                                   lambda k: self.AttValue(k, True))
        return self.alt(i, lambda j: self.tok("#REQUIRED", j), lambda j: self.tok("#IMPLIED", j), fixed)

    @nt
    def AttlistDecl(self, i):
        nm = lambda j: self.name_ends(j, self.kind_elem())
        attdef = lambda j: self.seq(j, self.S, nm, self.S, self.AttType, self.S, self.DefaultDecl)
        return self.seq(i, lambda j: self.tok("<!ATTLIST", j), self.S, nm, lambda j: self.star(j, attdef), self.S0, lambda j: self.tok(">", j))

    @nt
    def GEDecl(self, i):
        nm = lambda j: self.name_ends(j, self.kind_plain())
        ndata = lambda j: self.seq(j, self.S, lambda k: self.tok("NDATA", k), self.S, nm)
        edef = lambda j: self.alt(j, self.EntityValue, lambda k: self.seq(k, self.ExternalID, lambda x: self.opt(x, ndata)))
        return self.seq(i, lambda j: self.tok("<!ENTITY", j), self.S, nm, self.S, edef, self.S0, lambda j: self.tok(">", j))

    @nt
    def PEDecl(self, i):
        nm = lambda j: self.name_ends(j, self.kind_plain())
        pedef = lambda j: self.alt(j, self.EntityValue, self.ExternalID)
        return self.seq(i, lambda j: self.tok("<!ENTITY", j), self.S, lambda j: self.tok("%", j), self.S, nm, self.S, pedef, self.S0, lambda j: self.tok(">", j))

    @nt
    def NotationDecl(self, i):
        nm = lambda j: self.name_ends(j, self.kind_plain())
        pubid = lambda j: self.seq(j, lambda k: self.tok("PUBLIC", k), self.S, self.PubidLiteral)
        return self.seq(i, lambda j: self.tok("<!NOTATION", j), self.S, nm, self.S, lambda j: self.alt(j, self.ExternalID, pubid), self.S0, lambda j: self.tok(">", j))

    @nt
    def intSubset(self, i):
        items = [self.elementdecl, self.AttlistDecl, self.GEDecl, self.NotationDecl, self.PI, self.Comment, self.S]
        if not self.strict:
            items += [self.PEDecl, self.PEReference]
        return self.star(i, lambda j: self.alt(j, *items))

    @nt
    def doctypedecl(self, i):
        nm = lambda j: self.name_ends(j, self.kind_elem())
        ext = lambda j: self.opt(j, lambda k: self.seq(k, self.S, self.ExternalID))
        sub = lambda j: self.opt(j, lambda k: self.seq(k, lambda x: self.tok("[", x), self.intSubset, lambda x: self.tok("]", x), self.S0))
        return self.seq(i, lambda j: self.tok("<!DOCTYPE", j), self.S, nm, ext, self.S0, sub, lambda j: self.tok(">", j))

    def document(self):
        """condition: the whole input is a document"""
        miscs = lambda j: self.star(j, self.Misc)
        total = False
        # without DOCTYPE
        pro0 = self.seq(0, lambda j: self.opt(j, self.XMLDecl), miscs)
        for s, cs in pro0.items():
            for e, ce in self.element(s, False).items():
                for f, cf in miscs(e).items():
                    if f == self.L:
                        total = Or(total, And(cs, ce, cf))
        # with DOCTYPE
        pro1 = self.seq(0, lambda j: self.opt(j, self.XMLDecl), miscs, self.doctypedecl, miscs)
        for s, cs in pro1.items():
            for e, ce in self.element(s, True).items():
                for f, cf in miscs(e).items():
                    if f == self.L:
                        total = Or(total, And(cs, ce, cf))
        return total


def accepts(s, mode="lenient", declared=None, relax=()):
    """concrete evaluation of the reference"""
    r = XmlRef(sym.Input.concrete(s), mode, declared)
    r.relax = set(relax)
    v = r.document()
    assert isinstance(v, bool), v
    return v
