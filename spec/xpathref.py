"""Reference recognizer for XPath 1.0 expressions (REC-xpath-19991116, section 3 with the lexical rules of 3.7),
written from the Recommendation. Scannerless: ExprWhitespace is allowed between any two ExprTokens and
nowhere inside a token; name-like tokens and numbers are maximal (longest-token rule).

`levels` records, for every binary-operator occurrence the recognizer can derive, at which position it stands and
which grammar level derives it (used by the precedence obligation).
"""
from cfg import Rec, E, nt, sym, And, Or, Not
import xmlref

AXES = ["ancestor-or-self", "ancestor", "attribute", "child", "descendant-or-self", "descendant", "following-sibling",
        "following", "namespace", "parent", "preceding-sibling", "preceding", "self"]
NODE_TYPES = ["comment", "text", "processing-instruction", "node"]
LEVELS = {"or": 1, "and": 2, "=": 3, "!=": 3, "<": 4, "<=": 4, ">": 4, ">=": 4, "+": 5, "-": 5, "*": 6, "div": 6, "mod": 6, "|": 8}

is_ws = xmlref.is_ws
is_ncstart = xmlref.is_ncname_start
is_ncchar = xmlref.is_ncname_char
is_digit = xmlref.is_digit


class XPathRef(Rec):
    def __init__(self, inp, relax=(), outer_ws=False):
        Rec.__init__(self, inp)
        self.relax = set(relax)       # known-finding classes switched off
        self.outer_ws = outer_ws      # white space before the first / after the last token

    # --- tokens -------------------------------------------------------------------------------

    @nt
    def ws(self, i):
        return self.run(is_ws, i, 0)

    def not_ncchar_at(self, j):
        return True if j >= self.L else Not(is_ncchar(self.c(j)))

    def word(self, w, i):
        """a name-like keyword token: literal text not followed by a further name character"""
        out = E()
        c = self.at(w, i)
        if c is not False:
            out.add(i + len(w), And(c, self.not_ncchar_at(i + len(w))))
        return out

    def ncnames(self, i):
        """[(end, cond)]: maximal NCName starting at i"""
        key = ("ncnames", i)
        r = self.memo.get(key)
        if r is not None:
            return r
        out = []
        acc = True
        for j in range(i, self.L + 1):
            if j > i:
                out.append((j, And(acc, self.not_ncchar_at(j))))
            if j < self.L:
                acc = And(acc, is_ncstart(self.c(j)) if j == i else is_ncchar(self.c(j)))
                if acc is False:
                    break
        self.memo[key] = out
        return out

    @nt
    def NCName(self, i):
        out = E()
        for j, c in self.ncnames(i):
            out.add(j, c)
        return out

    @nt
    def QName(self, i):
        """NCName (':' NCName)? as ONE token; an unprefixed name is not followed by ':' NCNameStart or ':*'"""
        out = E()
        for j, c in self.ncnames(i):
            # prefixed
            if j < self.L:
                colon = sym.ceq(self.c(j), 0x3A)
                for k, c2 in self.ncnames(j + 1):
                    out.add(k, And(c, colon, c2))
                ext = Or(self.at(":*", j), And(colon, is_ncstart(self.c(j + 1))) if j + 1 < self.L else False)
                out.add(j, And(c, Not(ext)))
            else:
                out.add(j, c)
        return out

    def is_node_type_text(self, i, j):
        return Or(*[self.at(w, i) for w in NODE_TYPES if len(w) == j - i])

    @nt
    def FunctionName(self, i):
        """QName - NodeType"""
        out = E()
        for j, c in self.QName(i).items():
            out.add(j, And(c, Not(self.is_node_type_text(i, j))))
        return out

    @nt
    def NameTest(self, i):
        out = E()
        out.add(i + 1, self.at("*", i))
        for j, c in self.ncnames(i):
            out.add(j + 2, And(c, self.at(":*", j)))
        for j, c in self.QName(i).items():
            out.add(j, c)
        return out

    @nt
    def Literal(self, i):
        out = E()
        for q in "\"'":
            qc = self.at(q, i)
            if qc is False:
                continue
            acc = qc
            for j in range(i + 1, self.L):
                out.add(j + 1, And(acc, sym.ceq(self.c(j), ord(q))))
                acc = And(acc, Not(sym.ceq(self.c(j), ord(q))))
        return out

    @nt
    def Number(self, i):
        d1 = lambda j: self.run(is_digit, j, 1)
        d0 = lambda j: self.run(is_digit, j, 0)
        a = self.seq(i, d1, lambda j: self.opt(j, lambda k: self.seq(k, lambda x: self.tok(".", x), d0)))
        b = self.seq(i, lambda j: self.tok(".", j), d1)
        out = E()
        for r in (a, b):
            for j, c in r.items():
                # longest token: not followed by a further digit (runs are maximal) nor, for "1", by ".digit"
                out.add(j, c)
        return out

    def t(self, s):
        """a punctuation token followed by optional white space"""
        return lambda i: self.seq(i, lambda j: self.tok(s, j), self.ws)

    def tw(self, p):
        """token parser p followed by optional white space"""
        return lambda i: self.seq(i, p, self.ws)

    # --- grammar (every nonterminal starts at a token and ends after trailing white space) --------

    def Expr(self, i):
        return self.level(1, i)

    OPS = {1: ["or"], 2: ["and"], 3: ["!=", "="], 4: ["<=", ">=", "<", ">"], 5: ["+", "-"], 6: ["*", "div", "mod"]}

    def op_token(self, op, i):
        if op.isalpha():
            if "operator-name-boundary" in self.relax:
                return self.seq(i, lambda j: self.tok(op, j), self.ws)
            return self.seq(i, lambda j: self.word(op, j), self.ws)
        out = E()
        c = self.at(op, i)
        if c is not False:
            # longest token: '<' is not the start of '<=', '/' '/'...
            if op in ("<", ">") and i + 1 < self.L:
                c = And(c, Not(sym.ceq(self.c(i + 1), ord("="))))
            for j, cj in self.ws(i + len(op)).items():
                out.add(j, And(c, cj))
        return out

    def level(self, lv, i):
        key = ("level", lv, i)
        r = self.memo.get(key)
        if r is not None:
            return r
        if lv == 7:
            r = self.Unary(i)
        else:
            sub = lambda j: self.level(lv + 1, j)
            ops = self.OPS[lv]
            tail = lambda j: self.seq(j, lambda k: self.alt(k, *[(lambda x, op=op: self.op_token(op, x)) for op in ops]), sub)
            r = self.seq(i, sub, lambda j: self.star(j, tail))
        self.memo[key] = r
        return r

    @nt
    def Unary(self, i):
        minus = lambda j: self.seq(j, lambda k: self.tok("-", k), self.ws)
        return self.seq(i, lambda j: self.star(j, minus), self.Union)

    @nt
    def Union(self, i):
        tail = lambda j: self.seq(j, self.t("|"), self.PathExpr)
        return self.seq(i, self.PathExpr, lambda j: self.star(j, tail))

    @nt
    def PathExpr(self, i):
        slash = lambda j: self.alt(j, self.t("//"), lambda k: self.seq(k, lambda x: self.tok("/", x), lambda x: self.not_slash(x), self.ws))
        filt_path = lambda j: self.seq(j, self.FilterExpr, lambda k: self.opt(k, lambda x: self.seq(x, slash, self.RelativeLocationPath)))
        return self.alt(i, self.LocationPath, filt_path)

    def not_slash(self, i):
        out = E()
        out.add(i, True if i >= self.L else Not(sym.ceq(self.c(i), ord("/"))))
        return out

    @nt
    def LocationPath(self, i):
        slash1 = lambda k: self.seq(k, lambda x: self.tok("/", x), self.not_slash, self.ws)
        # lexical rule of 3.7: '/' is an Operator, so a '*' or a name after it is a NameTest, never the multiply operator
        # or an operator name: a bare '/' cannot be followed by a token that starts a step
        bare = lambda x: E({x: True if x >= self.L else Not(Or(sym.c_in_str(self.c(x), "*@."), is_ncstart(self.c(x))))})
        absolute = lambda j: self.alt(j,
                                      lambda k: self.seq(k, slash1, lambda x: self.alt(x, self.RelativeLocationPath, bare)),
                                      lambda k: self.seq(k, self.t("//"), self.RelativeLocationPath))
        return self.alt(i, self.RelativeLocationPath, absolute)

    @nt
    def RelativeLocationPath(self, i):
        slash = lambda j: self.alt(j, self.t("//"), lambda k: self.seq(k, lambda x: self.tok("/", x), self.not_slash, self.ws))
        tail = lambda j: self.seq(j, slash, self.Step)
        return self.seq(i, self.Step, lambda j: self.star(j, tail))

    @nt
    def Step(self, i):
        dotdot = self.t("..")
        dot = lambda j: self.seq(j, lambda k: self.tok(".", k), lambda k: self.not_dot_or_digit(k), self.ws)
        axis = lambda j: self.alt(j, *[(lambda k, a=a: self.seq(k, lambda x: self.word(a, x), self.ws, self.t("::"))) for a in AXES],
                                  self.t("@"), lambda k: E({k: True}))
        full = lambda j: self.seq(j, axis, self.NodeTest, lambda k: self.star(k, self.Predicate))
        return self.alt(i, dotdot, dot, full)

    def not_dot_or_digit(self, i):
        out = E()
        out.add(i, True if i >= self.L else Not(Or(sym.ceq(self.c(i), ord(".")), is_digit(self.c(i)))))
        return out

    @nt
    def NodeTest(self, i):
        pi_lit = lambda j: self.seq(j, lambda k: self.word("processing-instruction", k), self.ws, self.t("("), self.tw(self.Literal), self.t(")"))
        ntype = lambda j: self.alt(j, *[(lambda k, w=w: self.seq(k, lambda x: self.word(w, x), self.ws, self.t("("), self.t(")"))) for w in NODE_TYPES])
        # a NameTest that is followed by '(' would have to be a NodeType or FunctionName (lexical rule): excluded by the grammar
        name = lambda j: self.seq(j, self.NameTest, self.ws)
        return self.alt(i, pi_lit, ntype, name)

    @nt
    def Predicate(self, i):
        return self.seq(i, self.t("["), self.Expr, self.t("]"))

    @nt
    def FilterExpr(self, i):
        return self.seq(i, self.PrimaryExpr, lambda j: self.star(j, self.Predicate))

    @nt
    def PrimaryExpr(self, i):
        var = lambda j: self.seq(j, lambda k: self.tok("$", k), self.QName, self.ws)
        paren = lambda j: self.seq(j, self.t("("), self.Expr, self.t(")"))
        lit = self.tw(self.Literal)
        num = self.tw(self.Number)
        args = lambda j: self.opt(j, lambda k: self.seq(k, self.Expr, lambda x: self.star(x, lambda y: self.seq(y, self.t(","), self.Expr))))
        call = lambda j: self.seq(j, self.FunctionName, self.ws, self.t("("), args, self.t(")"))
        return self.alt(i, var, paren, lit, num, call)

    def expression(self):
        """the whole input is an Expr (leading white space allowed)"""
        total = False
        starts = self.ws(0).items() if self.outer_ws else [(0, True)]
        for s, cs in starts:
            for e, ce in self.Expr(s).items():
                if e != self.L:
                    continue
                # Expr ends after trailing white space; without outer_ws the last character must not be white space
                last_ok = True
                if not self.outer_ws and self.L > 0:
                    last_ok = Not(is_ws(self.c(self.L - 1)))
                total = Or(total, And(cs, ce, last_ok))
        return total


def accepts(s, relax=(), outer_ws=False):
    r = XPathRef(sym.Input.concrete(s), relax, outer_ws)
    v = r.expression()
    assert isinstance(v, bool), v
    return v
