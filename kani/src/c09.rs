// C09 harnesses: see below
