//! Kani harnesses on the compiled xml-rs crates (path dependencies on /repo).
#[cfg(kani)]
mod c18;
#[cfg(kani)]
mod c09;
