//! C18: the five character classifiers agree with XML 1.0 (Fifth Edition) for every `char`.
//! Right-hand sides transcribed from productions [2], [4], [4a], [13], [81].
use xml_nom::xmlchar;

fn spec_char(c: u32) -> bool {
    c == 0x9 || c == 0xA || c == 0xD || (0x20..=0xD7FF).contains(&c) || (0xE000..=0xFFFD).contains(&c) || (0x10000..=0x10FFFF).contains(&c)
}

fn spec_name_start(c: u32) -> bool {
    c == 0x3A
        || (0x41..=0x5A).contains(&c)
        || c == 0x5F
        || (0x61..=0x7A).contains(&c)
        || (0xC0..=0xD6).contains(&c)
        || (0xD8..=0xF6).contains(&c)
        || (0xF8..=0x2FF).contains(&c)
        || (0x370..=0x37D).contains(&c)
        || (0x37F..=0x1FFF).contains(&c)
        || (0x200C..=0x200D).contains(&c)
        || (0x2070..=0x218F).contains(&c)
        || (0x2C00..=0x2FEF).contains(&c)
        || (0x3001..=0xD7FF).contains(&c)
        || (0xF900..=0xFDCF).contains(&c)
        || (0xFDF0..=0xFFFD).contains(&c)
        || (0x10000..=0xEFFFF).contains(&c)
}

fn spec_name_char(c: u32) -> bool {
    spec_name_start(c)
        || c == 0x2D
        || c == 0x2E
        || (0x30..=0x39).contains(&c)
        || c == 0xB7
        || (0x300..=0x36F).contains(&c)
        || (0x203F..=0x2040).contains(&c)
}

fn spec_pubid(c: u32) -> bool {
    c == 0x20
        || c == 0xD
        || c == 0xA
        || (0x61..=0x7A).contains(&c)
        || (0x41..=0x5A).contains(&c)
        || (0x30..=0x39).contains(&c)
        || matches!(c, 0x2D | 0x27 | 0x28 | 0x29 | 0x2B | 0x2C | 0x2E | 0x2F | 0x3A | 0x3D | 0x3F | 0x3B | 0x21 | 0x2A | 0x23 | 0x40 | 0x24 | 0x5F | 0x25)
}

fn spec_enc(c: u32) -> bool {
    (0x41..=0x5A).contains(&c) || (0x61..=0x7A).contains(&c) || (0x30..=0x39).contains(&c) || c == 0x2E || c == 0x5F || c == 0x2D
}

macro_rules! harness {
    ($name:ident, $f:path, $spec:ident) => {
        #[kani::proof]
        fn $name() {
            let c: char = kani::any();
            kani::cover!(true);
            assert_eq!($f(c), $spec(c as u32));
        }
    };
}

harness!(c18_is_char, xmlchar::is_char, spec_char);
harness!(c18_is_name_start_char, xmlchar::is_name_start_char, spec_name_start);
harness!(c18_is_name_char, xmlchar::is_name_char, spec_name_char);
harness!(c18_is_pubid_char, xmlchar::is_pubid_char, spec_pubid);
harness!(c18_is_enc_name, xmlchar::is_enc_name, spec_enc);
