//! srcdump: dump every fn / impl fn of a Rust source file as a JSON expression tree.
//! Usage: srcdump <file.rs>...   -> JSON on stdout: {"files": {path: {"items": [...]}}}
use proc_macro2::TokenStream;
use quote::ToTokens;
use serde_json::{json, Value};
use syn::punctuated::Punctuated;
use syn::spanned::Spanned;
use syn::*;

fn ts<T: ToTokens>(t: &T) -> String {
    t.to_token_stream().to_string()
}

fn line<T: Spanned>(t: &T) -> usize {
    t.span().start().line
}

fn path_json(p: &Path) -> Value {
    let segs: Vec<Value> = p
        .segments
        .iter()
        .map(|s| Value::String(s.ident.to_string()))
        .collect();
    let generics: Vec<Value> = p
        .segments
        .iter()
        .map(|s| match &s.arguments {
            PathArguments::None => Value::Null,
            a => Value::String(ts(a)),
        })
        .collect();
    json!({"segs": segs, "generics": generics})
}

fn lit_json(l: &Lit) -> Value {
    match l {
        Lit::Str(s) => json!({"k":"lit","t":"str","v":s.value()}),
        Lit::ByteStr(s) => json!({"k":"lit","t":"bytestr","v":s.value()}),
        Lit::Byte(b) => json!({"k":"lit","t":"byte","v":b.value()}),
        Lit::Char(c) => json!({"k":"lit","t":"char","v":c.value() as u32}),
        Lit::Int(i) => json!({"k":"lit","t":"int","v":i.base10_digits(),"suffix":i.suffix()}),
        Lit::Float(f) => json!({"k":"lit","t":"float","v":f.base10_digits(),"suffix":f.suffix()}),
        Lit::Bool(b) => json!({"k":"lit","t":"bool","v":b.value}),
        _ => json!({"k":"lit","t":"other","v":ts(l)}),
    }
}

fn pat_json(p: &Pat) -> Value {
    match p {
        Pat::Ident(i) => json!({"k":"ident","name":i.ident.to_string(),"by_ref":i.by_ref.is_some(),
            "mut":i.mutability.is_some(),"sub":i.subpat.as_ref().map(|(_,p)| pat_json(p))}),
        Pat::Tuple(t) => json!({"k":"tuple","elems":t.elems.iter().map(pat_json).collect::<Vec<_>>()}),
        Pat::TupleStruct(t) => json!({"k":"tuplestruct","path":path_json(&t.path),
            "elems":t.elems.iter().map(pat_json).collect::<Vec<_>>()}),
        Pat::Struct(s) => json!({"k":"struct","path":path_json(&s.path),
            "fields":s.fields.iter().map(|f| json!({"member":ts(&f.member),"pat":pat_json(&f.pat)})).collect::<Vec<_>>(),
            "rest":s.rest.is_some()}),
        Pat::Path(p) => json!({"k":"path","path":path_json(&p.path)}),
        Pat::Lit(l) => json!({"k":"lit","lit":lit_json(&l.lit)}),
        Pat::Wild(_) => json!({"k":"wild"}),
        Pat::Or(o) => json!({"k":"or","cases":o.cases.iter().map(pat_json).collect::<Vec<_>>()}),
        Pat::Range(r) => json!({"k":"range","start":r.start.as_ref().map(|e| expr_json(e)),
            "end":r.end.as_ref().map(|e| expr_json(e)),
            "inclusive": matches!(r.limits, RangeLimits::Closed(_))}),
        Pat::Reference(r) => json!({"k":"ref","pat":pat_json(&r.pat)}),
        Pat::Rest(_) => json!({"k":"rest"}),
        Pat::Slice(s) => json!({"k":"slice","elems":s.elems.iter().map(pat_json).collect::<Vec<_>>()}),
        Pat::Type(t) => json!({"k":"typed","pat":pat_json(&t.pat),"ty":ts(&t.ty)}),
        Pat::Paren(p) => pat_json(&p.pat),
        other => json!({"k":"other","src":ts(other)}),
    }
}

struct MatchesArgs {
    expr: Expr,
    pat: Pat,
    guard: Option<Expr>,
}
impl parse::Parse for MatchesArgs {
    fn parse(input: parse::ParseStream) -> Result<Self> {
        let expr: Expr = input.parse()?;
        input.parse::<Token![,]>()?;
        let pat = Pat::parse_multi_with_leading_vert(input)?;
        let guard = if input.peek(Token![if]) {
            input.parse::<Token![if]>()?;
            Some(input.parse::<Expr>()?)
        } else {
            None
        };
        let _ = input.parse::<Option<Token![,]>>();
        Ok(MatchesArgs { expr, pat, guard })
    }
}

fn macro_json(m: &Macro) -> Value {
    let name = m.path.segments.last().map(|s| s.ident.to_string()).unwrap_or_default();
    let tokens: TokenStream = m.tokens.clone();
    if name == "matches" {
        if let Ok(a) = syn::parse2::<MatchesArgs>(tokens.clone()) {
            return json!({"k":"macro","name":name,"line":line(m),"matches":{"expr":expr_json(&a.expr),
                "pat":pat_json(&a.pat),"guard":a.guard.as_ref().map(expr_json)}});
        }
    }
    let parser = Punctuated::<Expr, Token![,]>::parse_terminated;
    match parse::Parser::parse2(parser, tokens.clone()) {
        Ok(args) => json!({"k":"macro","name":name,"line":line(m),
            "args":args.iter().map(expr_json).collect::<Vec<_>>()}),
        Err(_) => json!({"k":"macro","name":name,"line":line(m),"raw":tokens.to_string()}),
    }
}

fn block_json(b: &Block) -> Value {
    json!({"k":"block","stmts":b.stmts.iter().map(stmt_json).collect::<Vec<_>>()})
}

fn stmt_json(s: &Stmt) -> Value {
    match s {
        Stmt::Local(l) => json!({"k":"let","line":line(l),"pat":pat_json(&l.pat),
            "init":l.init.as_ref().map(|i| expr_json(&i.expr)),
            "else":l.init.as_ref().and_then(|i| i.diverge.as_ref().map(|(_,e)| expr_json(e)))}),
        Stmt::Expr(e, semi) => json!({"k":"expr","semi":semi.is_some(),"e":expr_json(e)}),
        Stmt::Item(Item::Fn(f)) => json!({"k":"item_fn","fn":fn_json(&f.sig, &f.block, &f.attrs, None, None)}),
        Stmt::Item(i) => json!({"k":"item","src":ts(i)}),
        Stmt::Macro(m) => json!({"k":"expr","semi":m.semi_token.is_some(),"e":macro_json(&m.mac)}),
    }
}

fn expr_json(e: &Expr) -> Value {
    match e {
        Expr::Call(c) => json!({"k":"call","line":line(c),"func":expr_json(&c.func),
            "args":c.args.iter().map(expr_json).collect::<Vec<_>>()}),
        Expr::MethodCall(m) => json!({"k":"mcall","line":line(m),"recv":expr_json(&m.receiver),
            "method":m.method.to_string(),"turbofish":m.turbofish.as_ref().map(|t| ts(t)),
            "args":m.args.iter().map(expr_json).collect::<Vec<_>>()}),
        Expr::Path(p) => { let mut v = path_json(&p.path); v["k"] = json!("path");
            if let Some(q) = &p.qself { v["qself"] = json!(ts(&q.ty)); } v }
        Expr::Lit(l) => lit_json(&l.lit),
        Expr::Tuple(t) => json!({"k":"tuple","elems":t.elems.iter().map(expr_json).collect::<Vec<_>>()}),
        Expr::Closure(c) => json!({"k":"closure","line":line(c),"move":c.capture.is_some(),
            "params":c.inputs.iter().map(pat_json).collect::<Vec<_>>(),"body":expr_json(&c.body)}),
        Expr::If(i) => json!({"k":"if","line":line(i),"cond":expr_json(&i.cond),"then":block_json(&i.then_branch),
            "else":i.else_branch.as_ref().map(|(_,e)| expr_json(e))}),
        Expr::Let(l) => json!({"k":"letcond","pat":pat_json(&l.pat),"expr":expr_json(&l.expr)}),
        Expr::Match(m) => json!({"k":"match","line":line(m),"expr":expr_json(&m.expr),
            "arms":m.arms.iter().map(|a| json!({"line":line(a),"pat":pat_json(&a.pat),
                "guard":a.guard.as_ref().map(|(_,g)| expr_json(g)),"body":expr_json(&a.body)})).collect::<Vec<_>>()}),
        Expr::Try(t) => json!({"k":"try","line":line(t),"e":expr_json(&t.expr)}),
        Expr::Field(f) => json!({"k":"field","base":expr_json(&f.base),"member":ts(&f.member)}),
        Expr::Assign(a) => json!({"k":"assign","line":line(a),"left":expr_json(&a.left),"right":expr_json(&a.right)}),
        Expr::Binary(b) => json!({"k":"binary","line":line(b),"op":ts(&b.op),"l":expr_json(&b.left),"r":expr_json(&b.right)}),
        Expr::Unary(u) => json!({"k":"unary","op":ts(&u.op),"e":expr_json(&u.expr)}),
        Expr::Block(b) => block_json(&b.block),
        Expr::Unsafe(b) => block_json(&b.block),
        Expr::ForLoop(f) => json!({"k":"for","line":line(f),"pat":pat_json(&f.pat),"iter":expr_json(&f.expr),"body":block_json(&f.body)}),
        Expr::While(w) => json!({"k":"while","line":line(w),"cond":expr_json(&w.cond),"body":block_json(&w.body)}),
        Expr::Loop(l) => json!({"k":"loop","line":line(l),"body":block_json(&l.body)}),
        Expr::Range(r) => json!({"k":"range","start":r.start.as_ref().map(|e| expr_json(e)),
            "end":r.end.as_ref().map(|e| expr_json(e)),"inclusive":matches!(r.limits, RangeLimits::Closed(_))}),
        Expr::Cast(c) => json!({"k":"cast","e":expr_json(&c.expr),"ty":ts(&c.ty)}),
        Expr::Struct(s) => json!({"k":"struct","path":path_json(&s.path),
            "fields":s.fields.iter().map(|f| json!({"member":ts(&f.member),"e":expr_json(&f.expr)})).collect::<Vec<_>>(),
            "rest":s.rest.as_ref().map(|r| expr_json(r))}),
        Expr::Reference(r) => json!({"k":"ref","mut":r.mutability.is_some(),"e":expr_json(&r.expr)}),
        Expr::Paren(p) => expr_json(&p.expr),
        Expr::Group(p) => expr_json(&p.expr),
        Expr::Index(i) => json!({"k":"index","line":line(i),"e":expr_json(&i.expr),"index":expr_json(&i.index)}),
        Expr::Macro(m) => macro_json(&m.mac),
        Expr::Return(r) => json!({"k":"return","line":line(r),"e":r.expr.as_ref().map(|e| expr_json(e))}),
        Expr::Break(b) => json!({"k":"break","e":b.expr.as_ref().map(|e| expr_json(e))}),
        Expr::Continue(_) => json!({"k":"continue"}),
        Expr::Array(a) => json!({"k":"array","elems":a.elems.iter().map(expr_json).collect::<Vec<_>>()}),
        Expr::Repeat(r) => json!({"k":"repeat","e":expr_json(&r.expr),"len":expr_json(&r.len)}),
        other => json!({"k":"other","src":ts(other)}),
    }
}

fn is_cfg_test(attrs: &[Attribute]) -> bool {
    attrs.iter().any(|a| a.path().is_ident("cfg") && ts(&a.meta).replace(' ', "").contains("cfg(test)"))
}

fn fn_json(sig: &Signature, block: &Block, attrs: &[Attribute], self_ty: Option<&str>, trait_: Option<&str>) -> Value {
    let params: Vec<Value> = sig
        .inputs
        .iter()
        .map(|a| match a {
            FnArg::Receiver(r) => json!({"name":"self","ty":ts(r),"self":true}),
            FnArg::Typed(t) => json!({"pat":pat_json(&t.pat),"name":ts(&t.pat),"ty":ts(&t.ty)}),
        })
        .collect();
    json!({"name":sig.ident.to_string(),"line":line(sig),"end_line":block.span().end().line,
        "self_ty":self_ty,"trait":trait_,
        "generics":ts(&sig.generics),"params":params,
        "ret":match &sig.output { ReturnType::Default => Value::Null, ReturnType::Type(_,t) => Value::String(ts(t)) },
        "attrs":attrs.iter().map(|a| ts(a)).collect::<Vec<_>>(),
        "body":block_json(block)})
}

fn items_json(items: &[Item], modpath: &str, out: &mut Vec<Value>) {
    for it in items {
        match it {
            Item::Fn(f) => {
                if is_cfg_test(&f.attrs) { continue; }
                let mut v = fn_json(&f.sig, &f.block, &f.attrs, None, None);
                v["mod"] = json!(modpath);
                v["vis"] = json!(ts(&f.vis));
                out.push(v);
            }
            Item::Impl(i) => {
                if is_cfg_test(&i.attrs) { continue; }
                let self_ty = ts(&i.self_ty);
                let tr = i.trait_.as_ref().map(|(_, p, _)| ts(p));
                for ii in &i.items {
                    if let ImplItem::Fn(f) = ii {
                        let mut v = fn_json(&f.sig, &f.block, &f.attrs, Some(&self_ty), tr.as_deref());
                        v["mod"] = json!(modpath);
                        v["vis"] = json!(ts(&f.vis));
                        v["impl_generics"] = json!(ts(&i.generics));
                        out.push(v);
                    }
                }
            }
            Item::Trait(t) => {
                let name = t.ident.to_string();
                for ti in &t.items {
                    if let TraitItem::Fn(f) = ti {
                        if let Some(b) = &f.default {
                            let mut v = fn_json(&f.sig, b, &f.attrs, None, Some(&name));
                            v["mod"] = json!(modpath);
                            v["trait_default"] = json!(true);
                            out.push(v);
                        }
                    }
                }
            }
            Item::Mod(m) => {
                if is_cfg_test(&m.attrs) { continue; }
                if let Some((_, its)) = &m.content {
                    let p = if modpath.is_empty() { m.ident.to_string() } else { format!("{}::{}", modpath, m.ident) };
                    items_json(its, &p, out);
                }
            }
            Item::Enum(e) => {
                out.push(json!({"enum":e.ident.to_string(),"line":line(e),"mod":modpath,
                    "variants":e.variants.iter().map(|v| json!({"name":v.ident.to_string(),
                        "fields":v.fields.iter().map(|f| json!({"name":f.ident.as_ref().map(|i| i.to_string()),"ty":ts(&f.ty)})).collect::<Vec<_>>()})).collect::<Vec<_>>()}));
            }
            Item::Struct(s) => {
                out.push(json!({"struct":s.ident.to_string(),"line":line(s),"mod":modpath,
                    "fields":s.fields.iter().map(|f| json!({"name":f.ident.as_ref().map(|i| i.to_string()),"ty":ts(&f.ty)})).collect::<Vec<_>>()}));
            }
            Item::Const(c) => {
                out.push(json!({"const":c.ident.to_string(),"line":line(c),"mod":modpath,"ty":ts(&c.ty),"e":expr_json(&c.expr)}));
            }
            _ => {}
        }
    }
}

fn main() {
    let mut files = serde_json::Map::new();
    for path in std::env::args().skip(1) {
        let src = std::fs::read_to_string(&path).unwrap_or_else(|e| panic!("{}: {}", path, e));
        let file = syn::parse_file(&src).unwrap_or_else(|e| panic!("{}: {}", path, e));
        let mut out = Vec::new();
        items_json(&file.items, "", &mut out);
        files.insert(path, json!({"items": out}));
    }
    println!("{}", serde_json::to_string(&json!({"files": files})).unwrap());
}
