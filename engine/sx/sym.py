"""Symbolic primitives with Python-level constant folding.

Booleans are Python bool or z3 BoolRef; characters are Python int or z3 BitVec(CW).
Everything that can be folded while the terms are being built is folded, so that an
input with concrete positions (template mode) or a fixed length costs nothing.
"""
import z3

CW = 21  # bits per code point


def is_const(x):
    return isinstance(x, (bool, int))


def And(*xs):
    out = []
    for x in xs:
        if x is True:
            continue
        if x is False:
            return False
        out.append(x)
    if not out:
        return True
    if len(out) == 1:
        return out[0]
    return z3.And(*out)


def Or(*xs):
    out = []
    for x in xs:
        if x is False:
            continue
        if x is True:
            return True
        out.append(x)
    if not out:
        return False
    if len(out) == 1:
        return out[0]
    return z3.Or(*out)


def Not(x):
    if x is True:
        return False
    if x is False:
        return True
    return z3.Not(x)


def Implies(a, b):
    return Or(Not(a), b)


def Iff(a, b):
    if isinstance(a, bool):
        return b if a else Not(b)
    if isinstance(b, bool):
        return a if b else Not(a)
    return a == b


def If(c, a, b):
    if c is True:
        return a
    if c is False:
        return b
    if isinstance(a, bool) and isinstance(b, bool):
        if a == b:
            return a
        return c if a else Not(c)
    if isinstance(a, bool):
        return Or(And(c, a), And(Not(c), b))
    if isinstance(b, bool):
        return Or(And(c, a), And(Not(c), b))
    return z3.If(c, a, b)


def ceq(c, k):
    """character equality; k may be int or term"""
    if isinstance(c, int) and isinstance(k, int):
        return c == k
    if isinstance(c, int):
        c, k = k, c
    if isinstance(k, int):
        return c == z3.BitVecVal(k, CW)
    return c == k


def cin(c, lo, hi):
    """lo <= c <= hi (unsigned)"""
    if isinstance(c, int):
        return lo <= c <= hi
    if lo == hi:
        return c == z3.BitVecVal(lo, CW)
    if lo == 0:
        return z3.ULE(c, z3.BitVecVal(hi, CW))
    return z3.And(z3.UGE(c, z3.BitVecVal(lo, CW)), z3.ULE(c, z3.BitVecVal(hi, CW)))


def cin_ranges(c, ranges):
    return Or(*[cin(c, lo, hi) for lo, hi in ranges])


def c_in_str(c, s):
    return Or(*[ceq(c, ord(ch)) for ch in s])


def is_scalar(c):
    """Unicode scalar value"""
    return Or(cin(c, 0, 0xD7FF), cin(c, 0xE000, 0x10FFFF))


class Input:
    """An input string of exactly L scalar values; chars[i] is int or BitVec."""

    def __init__(self, chars, name="c"):
        self.chars = list(chars)
        self.L = len(self.chars)
        self.name = name

    @staticmethod
    def symbolic(L, name="c"):
        return Input([z3.BitVec("%s%d" % (name, i), CW) for i in range(L)], name)

    @staticmethod
    def concrete(s):
        return Input([ord(ch) for ch in s])

    @staticmethod
    def template(parts, name="h"):
        """parts: list of str (concrete) or int n (n symbolic chars)"""
        chars = []
        k = 0
        for p in parts:
            if isinstance(p, str):
                chars.extend(ord(ch) for ch in p)
            else:
                for _ in range(p):
                    chars.append(z3.BitVec("%s%d" % (name, k), CW))
                    k += 1
        return Input(chars, name)

    def sym_vars(self):
        return [c for c in self.chars if not isinstance(c, int)]

    def wellformed(self):
        return And(*[is_scalar(c) for c in self.chars if not isinstance(c, int)])

    def from_model(self, m):
        out = []
        for c in self.chars:
            if isinstance(c, int):
                out.append(c)
            else:
                v = m.eval(c, model_completion=True)
                out.append(v.as_long())
        return "".join(chr(x) for x in out)

    def __getitem__(self, i):
        return self.chars[i]


class Ends(dict):
    """Result of running a parser at a concrete position: end position -> condition.
    Conditions are mutually exclusive; no true condition = the parser fails."""

    def ok(self):
        return Or(*self.values())

    def add(self, j, cond):
        if cond is False:
            return
        if j in self:
            self[j] = Or(self[j], cond)
        else:
            self[j] = cond

    def guard(self, g):
        out = Ends()
        for j, c in self.items():
            out.add(j, And(g, c))
        return out


def solver(timeout_ms=None, seed=None):
    s = z3.SolverFor("QF_BV")
    if timeout_ms:
        s.set("timeout", int(timeout_ms))
    if seed is not None:
        try:
            s.set("random_seed", int(seed) & 0x7FFFFFFF)
        except z3.Z3Exception:
            pass
    return s


def to_z3(b):
    if b is True:
        return z3.BoolVal(True)
    if b is False:
        return z3.BoolVal(False)
    return b
