"""Models of the std / core items the kernels use. One table; anything not listed is Unsupported."""
import math
import z3
from .kernel import (Ch, SStr, SVec, Enum, Obj, Closure, FnRef, Iter, Range_, Some, NONE, Ok, Err, UNIT, Panic, Return,
                     Unsupported, is_sym, to_bv, to_fp, utf8_width, from_pystr, concrete_str, F64, RNE, IW)
from . import sym
from .sym import And, Or, Not

U64MAX = (1 << 64) - 1
fmod = z3.Function("fmod", F64, F64, F64)


class OpaqueStr:
    """a string the model does not expand (e.g. Display of a finite non-zero f64)"""

    def __init__(self, tag, arg):
        self.tag = tag
        self.arg = arg


def is_int(v):
    return (isinstance(v, int) and not isinstance(v, bool)) or (isinstance(v, z3.BitVecRef) and v.size() == IW)


def is_f64(v):
    return isinstance(v, float) or isinstance(v, z3.FPRef)


def is_bool(v):
    return isinstance(v, bool) or isinstance(v, z3.BoolRef)


# ---- floats ---------------------------------------------------------------------------------------


def f_eq(a, b):
    if isinstance(a, float) and isinstance(b, float):
        return a == b
    return z3.fpEQ(to_fp(a), to_fp(b))


def f_cmp(op, a, b):
    if isinstance(a, float) and isinstance(b, float):
        return {"<": a < b, "<=": a <= b, ">": a > b, ">=": a >= b}[op]
    a, b = to_fp(a), to_fp(b)
    return {"<": z3.fpLT, "<=": z3.fpLEQ, ">": z3.fpGT, ">=": z3.fpGEQ}[op](a, b)


def f_arith(op, a, b):
    if isinstance(a, float) and isinstance(b, float):
        try:
            if op == "+":
                return a + b
            if op == "-":
                return a - b
            if op == "*":
                return a * b
            if op == "/":
                if b == 0.0:
                    if a == 0.0 or math.isnan(a):
                        return float("nan")
                    neg = (math.copysign(1.0, a) < 0) != (math.copysign(1.0, b) < 0)
                    return float("-inf") if neg else float("inf")
                return a / b
            if op == "%":
                if math.isinf(a) or b == 0.0 or math.isnan(a) or math.isnan(b):
                    return float("nan")
                return math.fmod(a, b)
        except OverflowError:
            return float("inf")
    a, b = to_fp(a), to_fp(b)
    if op == "+":
        return z3.fpAdd(RNE, a, b)
    if op == "-":
        return z3.fpSub(RNE, a, b)
    if op == "*":
        return z3.fpMul(RNE, a, b)
    if op == "/":
        return z3.fpDiv(RNE, a, b)
    if op == "%":
        return fmod(a, b)
    raise Unsupported("float op %s" % op)


def f_round(x, mode):
    """mode: 'round' (ties away), 'floor', 'ceil', 'trunc'"""
    if isinstance(x, float):
        if math.isnan(x) or math.isinf(x):
            return x
        if mode == "floor":
            r = float(math.floor(x))
        elif mode == "ceil":
            r = float(math.ceil(x))
        elif mode == "trunc":
            r = float(math.trunc(x))
        else:
            r = math.copysign(float(math.floor(abs(x) + 0.5)), x) if abs(x) < 2 ** 52 else x
            if abs(x) < 2 ** 52 and abs(x) + 0.5 == math.floor(abs(x)) + 1.0 and (abs(x) - math.floor(abs(x))) < 0.5:
                r = math.copysign(float(math.floor(abs(x))), x)   # 0.49999999999999994 + 0.5 rounds up in binary
        if r == 0.0:
            r = math.copysign(0.0, x)
        return r
    rm = {"round": z3.RNA(), "floor": z3.RTN(), "ceil": z3.RTP(), "trunc": z3.RTZ()}[mode]
    return z3.fpRoundToIntegral(rm, x)


def f_to_usize(I, x):
    """`x as usize`: saturating, NaN -> 0"""
    if isinstance(x, float):
        if math.isnan(x) or x <= 0:
            return 0
        if x >= 2.0 ** 64:
            return U64MAX
        return int(x)
    big = z3.FPVal(2.0 ** 64, F64)
    return z3.If(z3.Or(z3.fpIsNaN(x), z3.fpLEQ(x, z3.FPVal(0.0, F64))), z3.BitVecVal(0, IW),
                 z3.If(z3.fpGEQ(x, big), z3.BitVecVal(U64MAX, IW), z3.fpToUBV(z3.RTZ(), x, z3.BitVecSort(IW))))


def usize_to_f(x):
    if isinstance(x, int):
        return float(x)
    return z3.fpToFPUnsigned(RNE, x, F64)


# ---- rust float parsing / printing ---------------------------------------------------------------------


def rust_parse_f64_concrete(s):
    """core::num::dec2flt accept language; returns float or None"""
    import re
    if re.fullmatch(r"[+-]?(inf|infinity|nan)", s, re.I):
        t = s.lstrip("+-").lower()
        v = float("nan") if t == "nan" else float("inf")
        return -v if s.startswith("-") else v
    if re.fullmatch(r"[+-]?(\d+\.?\d*|\.\d+)([eE][+-]?\d+)?", s):
        try:
            return float(s)
        except (ValueError, OverflowError):
            return None
    return None


def rust_f64_to_string(x):
    """Display for f64: shortest round-trip digits, never an exponent"""
    if math.isnan(x):
        return "NaN"
    if math.isinf(x):
        return "inf" if x > 0 else "-inf"
    if x == 0.0:
        return "-0" if math.copysign(1.0, x) < 0 else "0"
    r = repr(x)
    if "e" in r or "E" in r:
        from decimal import Decimal
        r = format(Decimal(r), "f")
    if r.endswith(".0"):
        r = r[:-2]
    return r


# ---- generic value ops -----------------------------------------------------------------------------------


_CANON = {}


def canonical_renderings(n):
    """all strings of exactly n characters that f64::to_string produces for a finite non-zero double"""
    if n in _CANON:
        return _CANON[n]
    import itertools
    out = []
    if n <= 4:
        for t in itertools.product("0123456789.-", repeat=n):
            t = "".join(t)
            try:
                v = float(t)
            except ValueError:
                continue
            if v != 0.0 and not math.isinf(v) and rust_f64_to_string(v) == t:
                out.append((t, v))
    else:
        raise Unsupported("comparison of an opaque number rendering with a string of %d characters" % n)
    _CANON[n] = out
    return out


def s_eq(I, a, b):
    """string equality (lists of Ch) -> bool term"""
    if isinstance(a, OpaqueStr) or isinstance(b, OpaqueStr):
        if isinstance(a, OpaqueStr) and isinstance(b, OpaqueStr) and a.tag == b.tag:
            return f_bits_eq(a.arg, b.arg)
        o, t = (a, b) if isinstance(a, OpaqueStr) else (b, a)
        if o.tag == "f64::to_string" and isinstance(t, SStr) and not any(isinstance(x, OpaqueStr) for x in t):
            # the rendering of a finite non-zero double equals t iff t is one of the canonical renderings and denotes it
            alts = []
            for txt, val in canonical_renderings(len(t)):
                alts.append(And(*[sym.ceq(ch.c, ord(c)) for ch, c in zip(t, txt)], z3.fpEQ(to_fp(o.arg), z3.FPVal(val, F64))))
            return Or(*alts)
        raise Unsupported("comparison with an opaque string")
    if any(isinstance(x, OpaqueStr) for x in a) or any(isinstance(x, OpaqueStr) for x in b):
        # strings with an opaque segment: comparable only segment by segment
        if len(a) != len(b):
            raise Unsupported("comparison of strings with opaque segments of different shape")
        cs = []
        for x, y in zip(a, b):
            if isinstance(x, OpaqueStr) and isinstance(y, OpaqueStr) and x.tag == y.tag:
                cs.append(f_bits_eq(x.arg, y.arg))
            elif isinstance(x, Ch) and isinstance(y, Ch):
                cs.append(sym.ceq(x.c, y.c))
            else:
                raise Unsupported("comparison of strings with opaque segments of different shape")
        return And(*cs)
    if len(a) != len(b):
        return False
    return And(*[sym.ceq(x.c, y.c) for x, y in zip(a, b)])


def f_bits_eq(a, b):
    if isinstance(a, float) and isinstance(b, float):
        return (a == b and math.copysign(1, a) == math.copysign(1, b)) or (math.isnan(a) and math.isnan(b))
    return to_fp(a) == to_fp(b)


def v_eq(I, a, b):
    if isinstance(a, Ch) and isinstance(b, Ch):
        return sym.ceq(a.c, b.c)
    if isinstance(a, (SStr, OpaqueStr)) and isinstance(b, (SStr, OpaqueStr)):
        return s_eq(I, a, b)
    if is_f64(a) or is_f64(b):
        return f_eq(a if is_f64(a) else float(a), b if is_f64(b) else float(b))
    if is_int(a) and is_int(b):
        if isinstance(a, int) and isinstance(b, int):
            return a == b
        return to_bv(a) == to_bv(b)
    if is_bool(a) and is_bool(b):
        return sym.Iff(a, b)
    if isinstance(a, Enum) and isinstance(b, Enum):
        if a.variant != b.variant or len(a.fields) != len(b.fields):
            return False
        return And(*[v_eq(I, x, y) for x, y in zip(a.fields, b.fields)])
    if isinstance(a, tuple) and isinstance(b, tuple) and len(a) == len(b):
        return And(*[v_eq(I, x, y) for x, y in zip(a, b)])
    if isinstance(a, SVec) and isinstance(b, SVec):
        if len(a) != len(b):
            return False
        return And(*[v_eq(I, x, y) for x, y in zip(a, b)])
    if isinstance(a, Obj) and isinstance(b, Obj):
        if a is b:
            return True
        if a.ty != b.ty:
            return False
        # a hand-written `impl PartialEq` of the repo type decides; otherwise #[derive(PartialEq)]: field by field
        file = getattr(a, "file", None)
        if file is not None:
            cands = [c for c in I.methods_of(a.ty, file, "eq") if "PartialEq" in (c[1].get("trait") or "")]
            if len(cands) == 1:
                return I.call_fn(cands[0][0], cands[0][1], [a, b])
        keys = [k for k in a.fields if not k.startswith("_")]
        if set(keys) != set(k for k in b.fields if not k.startswith("_")):
            raise Unsupported("== between %s objects with different fields" % a.ty)
        return And(*[v_eq(I, a.fields[k], b.fields[k]) for k in keys])
    raise Unsupported("== between %s and %s" % (type(a).__name__, type(b).__name__))


def v_cmp(I, op, a, b):
    if is_f64(a) or is_f64(b):
        return f_cmp(op, a if is_f64(a) else float(a), b if is_f64(b) else float(b))
    if isinstance(a, Ch) and isinstance(b, Ch):
        a, b = a.c, b.c
        w = sym.CW
    else:
        w = IW
    if isinstance(a, int) and isinstance(b, int):
        return {"<": a < b, "<=": a <= b, ">": a > b, ">=": a >= b}[op]
    a, b = to_bv(a, w), to_bv(b, w)
    return {"<": z3.ULT, "<=": z3.ULE, ">": z3.UGT, ">=": z3.UGE}[op](a, b)


def int_arith(I, op, a, b):
    debug = I.profile == "debug"
    if isinstance(a, int) and isinstance(b, int):
        if op == "+":
            r = a + b
            if r > U64MAX:
                if debug:
                    raise Panic("attempt to add with overflow")
                r &= U64MAX
            return r
        if op == "-":
            r = a - b
            if r < 0:
                if debug:
                    raise Panic("attempt to subtract with overflow")
                r &= U64MAX
            return r
        if op == "*":
            r = a * b
            if r > U64MAX:
                if debug:
                    raise Panic("attempt to multiply with overflow")
                r &= U64MAX
            return r
        if op in ("/", "%"):
            if b == 0:
                raise Panic("attempt to divide by zero")
            return a // b if op == "/" else a % b
    a, b = to_bv(a), to_bv(b)
    if op == "+":
        if I.branch(z3.Not(z3.BVAddNoOverflow(a, b, False)), "add overflow"):
            if debug:
                raise Panic("attempt to add with overflow")
        return a + b
    if op == "-":
        if I.branch(z3.ULT(a, b), "sub overflow"):
            if debug:
                raise Panic("attempt to subtract with overflow")
        return a - b
    if op == "*":
        if I.branch(z3.Not(z3.BVMulNoOverflow(a, b, False)), "mul overflow"):
            if debug:
                raise Panic("attempt to multiply with overflow")
        return a * b
    if op in ("/", "%"):
        if I.branch(b == 0, "div by zero"):
            raise Panic("attempt to divide by zero")
        return z3.UDiv(a, b) if op == "/" else z3.URem(a, b)
    raise Unsupported("int op %s" % op)


def binop(I, op, a, b):
    if op in ("==", "!=") and isinstance(a, Enum) and getattr(a, "file", None) and not (isinstance(b, Enum) and b.ty == a.ty):
        # impl PartialEq<T> for <repo enum>
        r = I.call_method_of(a, "eq", [a, b])
        return r if op == "==" else Not(r)
    if op == "==":
        return v_eq(I, a, b)
    if op == "!=":
        return Not(v_eq(I, a, b))
    if op in ("<", "<=", ">", ">="):
        return v_cmp(I, op, a, b)
    if op in ("+", "-", "*", "/", "%"):
        if is_f64(a) and is_f64(b):
            return f_arith(op, a, b)
        if is_int(a) and is_int(b):
            return int_arith(I, op, a, b)
        if op == "+" and isinstance(a, SStr) and isinstance(b, SStr):
            return SStr(a + b)
        # operator overloading on repo types (impl ops::Add for Value ...)
        if isinstance(a, Enum):
            tr = {"+": "add", "-": "sub", "*": "mul", "/": "div", "%": "rem"}[op]
            return I.call_method_of(a, tr, [a, b])
        raise Unsupported("%s on %s,%s" % (op, type(a).__name__, type(b).__name__))
    if op in ("&", "|", "^"):
        if is_bool(a) and is_bool(b):
            return {"&": And, "|": Or}[op](a, b) if op != "^" else Not(sym.Iff(a, b))
    raise Unsupported("binary %s" % op)


def neg(I, v):
    if isinstance(v, float):
        return -v
    if isinstance(v, z3.FPRef):
        return z3.fpNeg(v)
    if isinstance(v, Enum):
        return I.call_method_of(v, "neg", [v])
    raise Unsupported("unary minus on %s" % type(v).__name__)


def cast(I, v, ty):
    if ty in ("usize", "u64", "u32"):
        if is_f64(v):
            return f_to_usize(I, v)
        if isinstance(v, Ch):
            return v.c if isinstance(v.c, int) else z3.ZeroExt(IW - sym.CW, v.c)
        if is_int(v):
            return v
        if is_bool(v):
            return 1 if v is True else 0 if v is False else z3.If(v, z3.BitVecVal(1, IW), z3.BitVecVal(0, IW))
    if ty == "f64":
        if is_f64(v):
            return v
        if is_int(v):
            return usize_to_f(v)
    if ty in ("i64", "isize", "i32"):
        raise Unsupported("signed cast")
    raise Unsupported("cast to %s" % ty)


def index(I, base, idx):
    if isinstance(idx, Range_):
        lo = 0 if idx.start is None else idx.start
        hi = len(base) if idx.end is None else idx.end
        hi_c = I.concretize(hi, 0, len(base), "slice end")
        if hi_c is None:
            raise Panic("range end index out of range")
        if idx.inclusive:
            hi_c += 1
        lo_c = I.concretize(lo, 0, hi_c, "slice start")
        if lo_c is None:
            raise Panic("slice index starts past end")
        if isinstance(base, SStr):
            raise Unsupported("byte-range slicing of str")
        return type(base)(base[lo_c:hi_c])
    i = I.concretize(idx, 0, len(base) - 1, "index")
    if i is None:
        raise Panic("index out of bounds")
    return base[i]


def into_iter(I, v):
    if isinstance(v, Iter):
        return v.items[v.pos:]
    if isinstance(v, (SVec, SStr, list)):
        return list(v)
    if isinstance(v, Range_):
        lo = I.concretize(v.start, 0, 64)
        hi = I.concretize(v.end, 0, 64)
        if lo is None or hi is None:
            raise Unsupported("symbolic range loop")
        return list(range(lo, hi + (1 if v.inclusive else 0)))
    if isinstance(v, Enum) and v.ty == "Option":
        return list(v.fields)
    if isinstance(v, Obj):
        # a repo type implementing Iterator: drive its `next`
        out = []
        for _ in range(65):
            r = I.try_repo_method(v, "next", [])
            if r is NotImplemented:
                break
            if isinstance(r, Enum) and r.variant == "None":
                return out
            out.append(r.fields[0])
        else:
            raise Unsupported("iterator of %s does not end within 64 items" % v.ty)
    raise Unsupported("iterate %s" % type(v).__name__)


class HSet(list):
    """std::collections::HashSet over values compared with v_eq (insertion order kept, it is never observed)"""


class HMap(list):
    """std::collections::HashMap as a list of [key, value] cells, keys compared with v_eq (a later insert of an equal key
    replaces the value, as the real map does; iteration order is never observed - iterating is Unsupported)"""


def hmap_insert(I, m, k, v):
    for cell in m:
        if I.truth(v_eq(I, cell[0], k)):
            old = cell[1]
            cell[1] = v
            return Some(old)
    m.append([k, v])
    return NONE


# ---- paths, calls, macros --------------------------------------------------------------------------------


def path_value(I, segs, env):
    if segs[0] == "Self" and env.get("__self_ty__"):
        segs = [env["__self_ty__"]] + list(segs[1:])
        if len(segs) == 2:
            fn = I.find_assoc(segs[0], segs[1], env)
            if fn is not None:
                return FnRef(fn[0], fn[1])
    s = "::".join(segs)
    consts = {"f64::NAN": float("nan"), "f64::INFINITY": float("inf"), "f64::NEG_INFINITY": float("-inf"),
              "usize::MAX": U64MAX, "u64::MAX": U64MAX, "u32::MAX": (1 << 32) - 1, "f64::EPSILON": 2.220446049250313e-16,
              "std::f64::NAN": float("nan"), "f64::MAX": 1.7976931348623157e308, "f64::MIN": -1.7976931348623157e308}
    if s in consts:
        return consts[s]
    # unit enum variant / tuple-variant constructor used as a value
    if len(segs) >= 2 and segs[-1][:1].isupper():
        ty, var = segs[-2], segs[-1]
        r = Enum(ty, var, [])
        r.file = I.type_files.get(ty, [env.get("__file__")])[0]
        return r
    if segs[-1] == "new" or segs[-1] == "default":
        return FnRef(None, {"name": s, "builtin": True})
    r = I.resolve_fn(segs, env)
    if r is not None:
        return FnRef(r[0], r[1])
    # a function path used as a value (`.map(Type::from)`): stubs first, then the same resolution as a call
    if s in I.stubs or segs[-1] in I.stubs:
        st = I.stubs.get(s) or I.stubs[segs[-1]]
        return lambda *a: st(I, *a)
    if len(segs) >= 2 and segs[-2][:1].isupper():
        return lambda *a: call_path(I, segs, list(a), env, None)
    raise Unsupported("path value %s" % s)


def call_path(I, segs, args, env, fexpr):
    if segs[0] == "Self" and env.get("__self_ty__"):
        segs = [env["__self_ty__"]] + list(segs[1:])
    s = "::".join(segs)
    last = segs[-1]
    if s in I.stubs:
        return I.stubs[s](I, *args)
    if last in ("Some", "Ok", "Err") and len(segs) == 1:
        return {"Some": Some, "Ok": Ok, "Err": Err}[last](args[0])
    if s in ("HashSet::new", "HashSet::default", "std::collections::HashSet::new"):
        return HSet()
    if s in ("HashMap::new", "HashMap::default", "std::collections::HashMap::new", "HashMap::with_capacity"):
        return HMap()
    if s in ("String::with_capacity", "Vec::with_capacity"):
        return SStr() if s.startswith("String") else SVec()
    if s in ("String::new", "Vec::new", "String::default"):
        return SStr() if s.startswith("String") else SVec()
    if s == "String::from":
        return SStr(args[0])
    if s in ("String::try_from", "f64::try_from", "bool::try_from"):
        return I.call_tryfrom(segs[0], args[0])
    if s == "char::from_u32":
        v = args[0]
        if isinstance(v, int):
            return Some(Ch(v)) if (v <= 0xD7FF or 0xE000 <= v <= 0x10FFFF) else NONE
        ok = z3.Or(z3.ULE(v, 0xD7FF), z3.And(z3.UGE(v, 0xE000), z3.ULE(v, 0x10FFFF)))
        if I.branch(ok, "char::from_u32"):
            return Some(Ch(z3.Extract(sym.CW - 1, 0, v)))
        return NONE
    if s == "char::from_u32_unchecked":
        v = args[0]
        return Ch(v if isinstance(v, int) else z3.Extract(sym.CW - 1, 0, v))
    if s == "u32::from_str_radix":
        return parse_uint(I, args[0], args[1], 32)
    if s in ("Rc::new", "Box::new", "RefCell::new", "Rc::clone", "std::mem::take", "Rc::downgrade", "Weak::upgrade"):
        return args[0]
    if s == "Range" or last == "Range":
        raise Unsupported("Range ctor")
    # enum tuple-variant constructor: Type::Variant(args)
    if len(segs) >= 2 and last[:1].isupper() and segs[-2][:1].isupper():
        r = Enum(segs[-2], last, args)
        r.file = I.type_files.get(segs[-2], [env.get("__file__")])[0]
        return r
    r = I.resolve_fn(segs, env)
    if r is not None:
        return I.call_fn(r[0], r[1], args)
    # Type::assoc_fn(args) on a repo type
    if len(segs) >= 2 and segs[-2][:1].isupper():
        fn = I.find_assoc(segs[-2], last, env)
        if fn is not None:
            return I.call_fn(fn[0], fn[1], args)
        if last == "from" and len(args) == 1:
            # Type::from(v): the `impl From<..V..> for Type` of the file in scope whose parameter mentions v's type
            import re
            vt = getattr(args[0], "ty", None)
            cands = []
            for (f, sty, nm), fns in I.dump.methods.items():
                if nm == "from" and sty.split("<")[0] == segs[-2] and f == env.get("__file__"):
                    cands += [(f, fn) for fn in fns if (fn.get("trait") or "").replace(" ", "").startswith("From<")]
            if vt is not None:
                sel = [c for c in cands if re.search(r"[<:]%s>" % re.escape(vt), (c[1].get("trait") or "").replace(" ", ""))]
                if len(sel) == 1:
                    cands = sel
            if len(cands) == 1:
                return I.call_fn(cands[0][0], cands[0][1], args)
    raise Unsupported("call %s" % s)


def parse_uint(I, s, radix, bits):
    """str::parse::<uN>() / from_str_radix on a digit string; leading '+' allowed by Rust"""
    if isinstance(s, OpaqueStr):
        raise Unsupported("parse of opaque string")
    if len(s) == 0:
        return Err(Enum("ParseIntError", "Empty", []))
    chars = list(s)
    if isinstance(chars[0].c, int) and chars[0].c == ord("+") and len(chars) > 1:
        chars = chars[1:]
    W = IW
    val = 0
    for ch in chars:
        c = ch.c
        if isinstance(c, int):
            try:
                d = int(chr(c), radix)
            except ValueError:
                return Err(Enum("ParseIntError", "InvalidDigit", []))
        else:
            isdig = sym.cin(c, 0x30, 0x39) if radix == 10 else sym.cin_ranges(c, [(0x30, 0x39), (0x41, 0x46), (0x61, 0x66)])
            if not I.branch(isdig, "digit"):
                return Err(Enum("ParseIntError", "InvalidDigit", []))
            z = z3.ZeroExt(W - sym.CW, c)
            d = z - 0x30 if radix == 10 else z3.If(z3.ULE(z, 0x39), z - 0x30, z3.If(z3.ULE(z, 0x46), z - 0x41 + 10, z - 0x61 + 10))
        if isinstance(val, int) and isinstance(d, int):
            val = val * radix + d
            if val >= (1 << bits):
                return Err(Enum("ParseIntError", "PosOverflow", []))
        else:
            nv = to_bv(val) * radix + to_bv(d)
            if I.branch(z3.UGE(nv, 1 << bits), "parse overflow"):
                return Err(Enum("ParseIntError", "PosOverflow", []))
            val = nv
    return Ok(val)


def fmt_concat(I, fmt, args):
    """format!/write! with only {} holes"""
    out = SStr()
    parts = fmt.replace("{{", "\x00").replace("}}", "\x01").split("{}")
    if len(parts) - 1 != len(args):
        raise Unsupported("format string %r with %d args" % (fmt, len(args)))
    for k, p in enumerate(parts):
        if "{" in p or "}" in p:
            raise Unsupported("format spec in %r" % fmt)
        out.extend(from_pystr(p.replace("\x00", "{").replace("\x01", "}")))
        if k < len(args):
            out.extend(display(I, args[k]))
    return out


def display(I, v):
    if isinstance(v, SStr):
        return v
    if isinstance(v, Ch):
        return SStr([v])
    if isinstance(v, int) and not isinstance(v, bool):
        return from_pystr(str(v))
    if isinstance(v, bool):
        return from_pystr("true" if v else "false")
    if isinstance(v, float):
        return from_pystr(rust_f64_to_string(v))
    if isinstance(v, (Obj, Enum)):
        return I.call_display(v)
    raise Unsupported("Display of %s" % type(v).__name__)


def macro(I, e, env):
    name = e["name"]
    if name in ("unimplemented", "todo", "panic", "unreachable"):
        raise Panic("%s!() at line %s" % (name, e.get("line")))
    if name == "matches":
        m = e["matches"]
        v = I.ev(m["expr"], env)
        env2 = dict(env)
        ok = I.match(m["pat"], v, env2)
        if ok and m["guard"] is not None:
            return I.truth(I.ev(m["guard"], env2))
        return ok
    if name == "vec":
        if "args" in e:
            return SVec(I.ev(a, env) for a in e["args"])
        raise Unsupported("vec! form")
    if name == "format":
        args = e["args"]
        return fmt_concat(I, args[0]["v"], [I.ev(a, env) for a in args[1:]])
    if name in ("write", "writeln"):
        args = e["args"]
        f = I.ev(args[0], env)
        s = fmt_concat(I, args[1]["v"], [I.ev(a, env) for a in args[2:]])
        if name == "writeln":
            s.append(Ch(10))
        f.fields["buf"].extend(s)
        return Ok(UNIT)
    if name in ("assert", "debug_assert"):
        if not I.truth(I.ev(e["args"][0], env)):
            raise Panic("assertion failed")
        return UNIT
    raise Unsupported("macro %s!" % name)


# ---- methods ---------------------------------------------------------------------------------------------

IDENTITY = {"borrow", "borrow_mut", "clone", "as_str", "to_string", "to_owned", "as_ref", "as_mut", "iter", "into_iter", "as_slice",
            "as_deref", "deref", "into", "cloned", "copied", "as_bytes_unsupported", "iter_mut", "by_ref", "to_vec", "into_boxed_str"}


def str_find(I, s, pat):
    """first index (in chars) of pat in s, or None; forks on the symbolic comparisons"""
    n, m = len(s), len(pat)
    for k in range(0, n - m + 1):
        if I.branch(And(*[sym.ceq(s[k + d].c, pat[d].c) for d in range(m)]), "substring match"):
            return k
    return None


def is_rust_ws(c):
    """char::is_whitespace (White_Space property)"""
    rng = [(0x9, 0xD), (0x20, 0x20), (0x85, 0x85), (0xA0, 0xA0), (0x1680, 0x1680), (0x2000, 0x200A), (0x2028, 0x2029),
           (0x202F, 0x202F), (0x205F, 0x205F), (0x3000, 0x3000)]
    return sym.cin_ranges(c, rng)


def method(I, recv, name, args, e, env):
    if name in ("borrow", "borrow_mut") and not args and I.track_borrows:
        I.b_borrow(recv, "mut" if name == "borrow_mut" else "shared")
        return recv
    if name == "try_into" and not args and isinstance(recv, (Obj, Enum)) and getattr(recv, "ty", None) not in ("Option", "Result"):
        # value.try_into(): the one `impl TryFrom<Type> for ..` of the dump
        cands = []
        for (f, sty, nm), fns in I.dump.methods.items():
            if nm == "try_from":
                cands += [(f, fn) for fn in fns if (fn.get("trait") or "").replace(" ", "").endswith("TryFrom<%s>" % recv.ty)]
        if len(cands) == 1:
            return I.call_fn(cands[0][0], cands[0][1], [recv])
    ms = getattr(I, "mstubs", None)
    if ms:
        key = (getattr(recv, "ty", type(recv).__name__), name)
        if key in ms:
            return ms[key](I, recv, *args)
    # repo-defined methods first (objects and enums of repo types)
    if isinstance(recv, (Obj, Enum)) and not (isinstance(recv, Enum) and recv.ty in ("Option", "Result")):
        r = I.try_repo_method(recv, name, args)
        if r is not NotImplemented:
            return r
    if name == "upgrade" and not args:
        return Some(recv)          # Weak::upgrade: the referent is alive in every modelled state
    if name in IDENTITY and not args:
        if name == "to_string" and not isinstance(recv, (SStr, OpaqueStr)):
            if isinstance(recv, (Obj, Enum)):
                return I.call_display(recv)
            if isinstance(recv, z3.FPRef):
                return f64_to_string_sym(I, recv)
            return display(I, recv)
        if name in ("iter", "into_iter", "iter_mut"):
            return Iter(into_iter(I, recv))
        if name in ("cloned", "copied", "by_ref") and isinstance(recv, Iter):
            return recv
        if name in ("clone", "to_vec", "to_owned", "to_string") and isinstance(recv, (SStr, SVec)):
            return type(recv)(recv)
        return recv
    # ---- Option / Result ------------------------------------------------------------------------------
    if isinstance(recv, Enum) and recv.ty in ("Option", "Result"):
        v = recv.variant
        good = v in ("Some", "Ok")
        if name in ("unwrap", "expect"):
            if good:
                return recv.fields[0]
            raise Panic("called `%s::unwrap()` on `%s`" % (recv.ty, v))
        if name == "unwrap_or":
            return recv.fields[0] if good else args[0]
        if name == "unwrap_or_default":
            if good:
                return recv.fields[0]
            return I.default_hint(e)
        if name == "unwrap_or_else":
            return recv.fields[0] if good else I.call_closure(args[0], [] if v == "None" else [recv.fields[0]])
        if name == "map":
            return Enum(recv.ty, v, [I.call_closure(args[0], [recv.fields[0]])]) if good else recv
        if name == "map_err":
            return recv if good else Err(I.call_closure(args[0], [recv.fields[0]]))
        if name == "and_then":
            return I.call_closure(args[0], [recv.fields[0]]) if good else recv
        if name in ("ok_or", "ok_or_else"):
            if good:
                return Ok(recv.fields[0])
            return Err(args[0] if name == "ok_or" else I.call_closure(args[0], []))
        if name == "ok":
            return Some(recv.fields[0]) if good else NONE
        if name == "is_some" or name == "is_ok":
            return good
        if name == "is_none" or name == "is_err":
            return not good
        if name in ("is_some_and", "is_ok_and"):
            return bool(good) and I.truth(I.call_closure(args[0], [recv.fields[0]]))
        if name == "is_none_or":
            return (not good) or I.truth(I.call_closure(args[0], [recv.fields[0]]))
        if name == "filter":
            if good and I.truth(I.call_closure(args[0], [recv.fields[0]])):
                return recv
            return NONE
        if name == "as_deref" or name == "as_ref":
            return recv
        raise Unsupported("Option/Result::%s" % name)
    # ---- iterators ---------------------------------------------------------------------------------------
    if isinstance(recv, Iter):
        items = recv.items[recv.pos:]
        if name == "next":
            if recv.pos < len(recv.items):
                recv.pos += 1
                return Some(recv.items[recv.pos - 1])
            return NONE
        if name == "collect":
            tf = (e.get("turbofish") or "").replace(" ", "")
            if "HashMap" in tf:
                out = HMap()
                for x in items:
                    hmap_insert(I, out, x[0], x[1])
                return out
            if "String" in tf or (items and isinstance(items[0], Ch) and "Vec" not in tf) or (not items and "Vec" not in tf and "String" in I.type_hint(e, env)):
                out = SStr()
                for x in items:
                    out.extend(x if isinstance(x, SStr) else [x])
                return out
            if "Result" in tf:
                out = SVec()
                for x in items:
                    if x.variant == "Err":
                        return x
                    out.append(x.fields[0])
                return Ok(out)
            return SVec(items)
        if name in ("count", "len"):
            return len(items)
        if name == "skip":
            n = I.concretize(args[0], 0, len(items), "skip")
            return Iter(items[n:] if n is not None else [])
        if name == "take":
            n = I.concretize(args[0], 0, len(items), "take")
            return Iter(items[:n] if n is not None else items)
        if name == "map":
            return Iter([I.call_closure(args[0], [x]) for x in items])
        if name == "filter":
            return Iter([x for x in items if I.truth(I.call_closure(args[0], [x]))])
        if name == "flat_map":
            out = []
            for x in items:
                out += into_iter(I, I.call_closure(args[0], [x]))
            return Iter(out)
        if name == "filter_map":
            out = []
            for x in items:
                r = I.call_closure(args[0], [x])
                if isinstance(r, Enum) and r.variant == "Some":
                    out.append(r.fields[0])
            return Iter(out)
        if name == "enumerate":
            return Iter([(k, x) for k, x in enumerate(items)])
        if name == "rev":
            return Iter(list(reversed(items)))
        if name == "rfind":
            for x in reversed(items):
                if I.truth(I.call_closure(args[0], [x])):
                    return Some(x)
            return NONE
        if name == "rposition":
            for k in range(len(items) - 1, -1, -1):
                if I.truth(I.call_closure(args[0], [items[k]])):
                    return Some(k)
            return NONE
        if name == "take_while":
            k = 0
            while k < len(items) and I.truth(I.call_closure(args[0], [items[k]])):
                k += 1
            return Iter(items[:k])
        if name == "skip_while":
            k = 0
            while k < len(items) and I.truth(I.call_closure(args[0], [items[k]])):
                k += 1
            return Iter(items[k:])
        if name == "position":
            for k, x in enumerate(items):
                if I.truth(I.call_closure(args[0], [x])):
                    return Some(k)
            return NONE
        if name == "nth":
            n = I.concretize(args[0], 0, len(items) - 1, "nth")
            if n is None or n >= len(items):
                return NONE
            recv.pos += n + 1
            return Some(items[n])
        if name in ("find", "find_map"):
            for x in items:
                r = I.call_closure(args[0], [x])
                if name == "find":
                    if I.truth(r):
                        return Some(x)
                elif r.variant == "Some":
                    return r
            return NONE
        if name in ("all", "any"):
            for x in items:
                t = I.truth(I.call_closure(args[0], [x]))
                if name == "all" and not t:
                    return False
                if name == "any" and t:
                    return True
            return name == "all"
        if name == "last":
            return Some(items[-1]) if items else NONE
        if name == "chain":
            return Iter(items + into_iter(I, args[0]))
        if name == "peekable":
            return recv
        if name == "sum":
            acc = 0.0
            for x in items:
                acc = binop(I, "+", acc, x)
            return acc
        raise Unsupported("Iterator::%s" % name)
    # ---- strings -------------------------------------------------------------------------------------------
    if isinstance(recv, SStr):
        if name == "chars":
            return Iter(list(recv))
        if name == "len":
            tot = 0
            for ch in recv:
                w = utf8_width(ch.c)
                tot = tot + w if isinstance(tot, int) and isinstance(w, int) else to_bv(tot) + to_bv(w)
            return tot
        if name == "is_empty":
            return len(recv) == 0
        if name in ("encode_utf16", "bytes", "as_bytes"):
            # only the number of code units is modelled
            units = []
            for ch in recv:
                c = ch.c
                if name == "encode_utf16":
                    k = 2 if I.branch(sym.cin(c, 0x10000, 0x10FFFF), "astral") else 1
                else:
                    k = 1 if I.branch(sym.cin(c, 0, 0x7F), "1 byte") else 2 if I.branch(sym.cin(c, 0x80, 0x7FF), "2 bytes") \
                        else 3 if I.branch(sym.cin(c, 0x800, 0xFFFF), "3 bytes") else 4
                units += ["unit"] * k
            return Iter(units) if name != "as_bytes" else SVec(units)
        if name in ("push", "push_str", "append"):
            if isinstance(args[0], OpaqueStr):
                recv.append(args[0])
                return UNIT
            recv.extend(args[0] if isinstance(args[0], (SStr, list)) and not isinstance(args[0], Ch) else [args[0]])
            if name == "append":
                del args[0][:]
            return UNIT
        if name == "starts_with":
            p = args[0] if isinstance(args[0], SStr) else SStr([args[0]])
            if len(p) > len(recv):
                return False
            return And(*[sym.ceq(a.c, b.c) for a, b in zip(recv, p)])
        if name == "ends_with":
            p = args[0] if isinstance(args[0], SStr) else SStr([args[0]])
            if len(p) > len(recv):
                return False
            return And(*[sym.ceq(a.c, b.c) for a, b in zip(recv[len(recv) - len(p):], p)])
        if name == "contains":
            p = args[0] if isinstance(args[0], SStr) else SStr([args[0]])
            return str_find(I, recv, p) is not None
        if name == "find":
            p = args[0] if isinstance(args[0], SStr) else SStr([args[0]])
            k = str_find(I, recv, p)
            if k is None:
                return NONE
            # byte offset
            off = 0
            for ch in recv[:k]:
                w = utf8_width(ch.c)
                off = off + w if isinstance(off, int) and isinstance(w, int) else to_bv(off) + to_bv(w)
            return Some(off)
        if name == "split_once":
            p = args[0] if isinstance(args[0], SStr) else SStr([args[0]])
            k = str_find(I, recv, p)
            if k is None:
                return NONE
            return Some((SStr(recv[:k]), SStr(recv[k + len(p):])))
        if name == "replace":
            p = args[0] if isinstance(args[0], SStr) else SStr([args[0]])
            to = args[1] if isinstance(args[1], SStr) else SStr([args[1]])
            if len(p) > 1:
                # non-overlapping matches from the left, as str::replace does; every comparison may fork
                out = SStr()
                i, m = 0, len(p)
                while i < len(recv):
                    if i + m <= len(recv) and I.branch(And(*[sym.ceq(recv[i + d].c, p[d].c) for d in range(m)]), "replace"):
                        out.extend(to)
                        i += m
                    else:
                        out.append(recv[i])
                        i += 1
                return out
            if len(p) != 1:
                raise Unsupported("replace with an empty pattern")
            out = SStr()
            for ch in recv:
                if I.branch(sym.ceq(ch.c, p[0].c), "replace"):
                    out.extend(to)
                else:
                    out.append(ch)
            return out
        if name in ("trim_matches", "trim_start_matches", "trim_end_matches"):
            pred = args[0]
            hit = (lambda ch: I.truth(I.call_closure(pred, [ch]))) if isinstance(pred, (Closure, FnRef)) else \
                  (lambda ch: I.branch(sym.ceq(ch.c, pred.c), "trim_matches"))
            t = list(recv)
            if name != "trim_end_matches":
                while t and hit(t[0]):
                    t.pop(0)
            if name != "trim_start_matches":
                while t and hit(t[-1]):
                    t.pop()
            return SStr(t)
        if name in ("strip_prefix", "strip_suffix"):
            p = args[0] if isinstance(args[0], SStr) else SStr([args[0]])
            if len(p) > len(recv):
                return NONE
            seg = recv[:len(p)] if name == "strip_prefix" else recv[len(recv) - len(p):]
            if I.branch(And(*[sym.ceq(a.c, b.c) for a, b in zip(seg, p)]), name):
                return Some(SStr(recv[len(p):] if name == "strip_prefix" else recv[:len(recv) - len(p)]))
            return NONE
        if name == "split" and isinstance(args[0], (Closure, FnRef)):
            parts, cur = [], SStr()
            for ch in recv:
                if I.truth(I.call_closure(args[0], [ch])):
                    parts.append(cur)
                    cur = SStr()
                else:
                    cur.append(ch)
            parts.append(cur)
            return Iter(parts)
        if name == "split":
            p = args[0] if isinstance(args[0], SStr) else SStr([args[0]])
            if len(p) != 1:
                raise Unsupported("split with multi-char pattern")
            parts, cur = [], SStr()
            for ch in recv:
                if I.branch(sym.ceq(ch.c, p[0].c), "split"):
                    parts.append(cur)
                    cur = SStr()
                else:
                    cur.append(ch)
            parts.append(cur)
            return Iter(parts)
        if name == "split_whitespace":
            parts, cur = [], SStr()
            for ch in recv:
                if I.branch(is_rust_ws(ch.c), "is_whitespace"):
                    if cur:
                        parts.append(cur)
                    cur = SStr()
                else:
                    cur.append(ch)
            if cur:
                parts.append(cur)
            return Iter(parts)
        if name == "trim":
            s = list(recv)
            while s and I.branch(is_rust_ws(s[0].c), "trim"):
                s.pop(0)
            while s and I.branch(is_rust_ws(s[-1].c), "trim"):
                s.pop()
            return SStr(s)
        if name == "split_at":
            # byte index: must be on a char boundary
            mid = args[0]
            off = 0
            for k in range(len(recv) + 1):
                if I.branch(v_eq(I, mid, off), "split_at boundary"):
                    return (SStr(recv[:k]), SStr(recv[k:]))
                if k < len(recv):
                    off = binop(I, "+", off, utf8_width(recv[k].c))
            raise Panic("byte index is not a char boundary or out of bounds (str::split_at)")
        if name == "parse":
            tf = (e.get("turbofish") or "").replace(" ", "")
            if "u32" in tf:
                return parse_uint(I, recv, 10, 32)
            if "usize" in tf or "u64" in tf:
                return parse_uint(I, recv, 10, 64)
            if "f64" in tf:
                return parse_f64(I, recv)
            raise Unsupported("parse%s" % tf)
        if name == "eq":
            return s_eq(I, recv, args[0])
        if name == "truncate":
            n = I.concretize(args[0], 0, len(recv), "truncate")
            if n is not None:
                del recv[n:]
            return UNIT
        if name == "clear":
            del recv[:]
            return UNIT
        if name == "char_indices":
            raise Unsupported("char_indices")
        raise Unsupported("str::%s" % name)
    # ---- vectors ------------------------------------------------------------------------------------------
    if isinstance(recv, SVec) and name in ("chars", "push_str", "split_whitespace", "split_once", "starts_with", "trim", "parse") \
            and all(isinstance(x, Ch) for x in recv):
        return method(I, SStr(recv), name, args, e, env)
    if isinstance(recv, HMap):
        if name == "insert":
            return hmap_insert(I, recv, args[0], args[1])
        if name in ("get", "get_mut"):
            for cell in recv:
                if I.truth(v_eq(I, cell[0], args[0])):
                    return Some(cell[1])
            return NONE
        if name == "contains_key":
            for cell in recv:
                if I.truth(v_eq(I, cell[0], args[0])):
                    return True
            return False
        if name == "len":
            return len(recv)
        if name == "is_empty":
            return len(recv) == 0
        raise Unsupported("HashMap::%s" % name)
    if isinstance(recv, HSet):
        if name == "insert":
            for y in recv:
                if I.truth(v_eq(I, y, args[0])):
                    return False
            recv.append(args[0])
            return True
        if name == "contains":
            for y in recv:
                if I.truth(v_eq(I, y, args[0])):
                    return True
            return False
        if name == "len":
            return len(recv)
        raise Unsupported("HashSet::%s" % name)
    if isinstance(recv, SVec):
        if name == "len":
            return len(recv)
        if name in ("windows", "chunks") and isinstance(args[0], int) and args[0] > 0:
            n = args[0]
            if name == "windows":
                return Iter([SVec(recv[i:i + n]) for i in range(len(recv) - n + 1)])
            return Iter([SVec(recv[i:i + n]) for i in range(0, len(recv), n)])
        if name == "is_empty":
            return len(recv) == 0
        if name == "first":
            return Some(recv[0]) if recv else NONE
        if name == "last":
            return Some(recv[-1]) if recv else NONE
        if name == "get":
            i = I.concretize(args[0], 0, len(recv) - 1, "get")
            return Some(recv[i]) if i is not None and i < len(recv) else NONE
        if name == "push":
            recv.append(args[0])
            return UNIT
        if name == "insert":
            i = I.concretize(args[0], 0, len(recv), "insert")
            if i is None:
                raise Panic("insertion index out of bounds")
            recv.insert(i, args[1])
            return UNIT
        if name == "remove":
            i = I.concretize(args[0], 0, len(recv) - 1, "remove")
            if i is None or i >= len(recv):
                raise Panic("removal index out of bounds")
            return recv.pop(i)
        if name == "append":
            recv.extend(args[0])
            del args[0][:]
            return UNIT
        if name == "extend":
            recv.extend(into_iter(I, args[0]))
            return UNIT
        if name == "split_off":
            i = I.concretize(args[0], 0, len(recv), "split_off")
            if i is None:
                raise Panic("`at` split index out of bounds")
            tail = SVec(recv[i:])
            del recv[i:]
            return tail
        if name == "drain":
            r = args[0]
            hi = len(recv) if r.end is None else I.concretize(r.end, 0, len(recv), "drain end")
            if hi is None:
                raise Panic("range end index out of range (drain)")
            if r.inclusive:
                hi += 1
            lo = 0 if r.start is None else I.concretize(r.start, 0, hi, "drain start")
            if lo is None:
                raise Panic("slice index starts past end (drain)")
            out = recv[lo:hi]
            del recv[lo:hi]
            return Iter(out)
        if name == "join":
            sep = args[0]
            out = SStr()
            for k, x in enumerate(recv):
                if k:
                    out.extend(sep)
                out.extend(x)
            return out
        if name == "concat":
            out = SStr()
            for x in recv:
                out.extend(x)
            return out
        if name == "contains":
            for x in recv:
                if I.truth(v_eq(I, x, args[0])):
                    return True
            return False
        if name == "truncate":
            n = I.concretize(args[0], 0, len(recv), "truncate")
            if n is not None:
                del recv[n:]
            return UNIT
        if name == "clear":
            del recv[:]
            return UNIT
        if name == "retain":
            keep = [x for x in recv if I.truth(I.call_closure(args[0], [x]))]
            recv[:] = keep
            return UNIT
        if name == "pop":
            return Some(recv.pop()) if recv else NONE
        if name in ("sort_by_cached_key", "sort_by_key") and getattr(I, "model_sort", False):
            # stable insertion sort; a comparison of symbolic keys forks the path
            keyed = [(I.call_closure(args[0], [x]), x) for x in recv]
            out = []
            for kx in keyed:
                pos = len(out)
                while pos > 0 and I.truth(v_cmp(I, "<", kx[0], out[pos - 1][0])):
                    pos -= 1
                out.insert(pos, kx)
            recv[:] = [x for _, x in out]
            return UNIT
        if name == "dedup_by":
            # Vec::dedup_by(|b, a| same(b, a)): b is the later element, a the one kept before it
            out = []
            for x in recv:
                if out and I.truth(I.call_closure(args[0], [x, out[-1]])):
                    continue
                out.append(x)
            recv[:] = out
            return UNIT
        if name == "dedup_by_key" and getattr(I, "model_sort", False):
            # removes all but the first of consecutive elements with equal keys
            out = []
            last_key = None
            for x in recv:
                kx = I.call_closure(args[0], [x])
                if out and I.truth(v_eq(I, kx, last_key)):
                    continue
                out.append(x)
                last_key = kx
            recv[:] = out
            return UNIT
        if name in ("sort_by_cached_key", "sort_by_key", "sort_by", "sort", "dedup", "dedup_by_key"):
            I.ex.notes.append(("unmodelled-reorder", name))
            return UNIT      # element order / duplicates are not modelled: only used where the obligation does not depend on them
        if name == "reverse":
            recv.reverse()
            return UNIT
        if name == "as_value":
            r = Enum("Value", "Node", [SVec(recv)])
            r.file = I.type_files.get("Value", [None])[0]
            return r
        if name == "remove_first":
            raise Unsupported(name)
        raise Unsupported("Vec::%s" % name)
    # ---- floats / ints / chars / bools -----------------------------------------------------------------------
    if is_f64(recv):
        if name in ("round", "floor", "ceil", "trunc"):
            return f_round(recv, name)
        if name == "is_nan":
            return math.isnan(recv) if isinstance(recv, float) else z3.fpIsNaN(recv)
        if name == "is_infinite":
            return math.isinf(recv) if isinstance(recv, float) else z3.fpIsInf(recv)
        if name == "is_finite":
            return (not math.isinf(recv) and not math.isnan(recv)) if isinstance(recv, float) else z3.Not(z3.Or(z3.fpIsInf(recv), z3.fpIsNaN(recv)))
        if name == "abs":
            return abs(recv) if isinstance(recv, float) else z3.fpAbs(recv)
        if name == "is_sign_negative":
            return math.copysign(1.0, recv) < 0 if isinstance(recv, float) else z3.fpIsNegative(recv)
        if name == "is_sign_positive":
            return math.copysign(1.0, recv) > 0 if isinstance(recv, float) else z3.fpIsPositive(recv)
        if name in ("max", "min") and len(args) == 1 and (is_f64(args[0]) or isinstance(args[0], int)):
            # f64::max / min: if one argument is NaN the other is returned
            a, b = recv, (float(args[0]) if isinstance(args[0], int) else args[0])
            if isinstance(a, float) and isinstance(b, float):
                if math.isnan(a):
                    return b
                if math.isnan(b):
                    return a
                return max(a, b) if name == "max" else min(a, b)
            fa, fb = to_fp(a), to_fp(b)
            pick = z3.fpMax(fa, fb) if name == "max" else z3.fpMin(fa, fb)
            return z3.If(z3.fpIsNaN(fa), fb, z3.If(z3.fpIsNaN(fb), fa, pick))
        if name == "clamp" and len(args) == 2:
            lo, hi = to_fp(args[0]), to_fp(args[1])
            x = to_fp(recv)
            return z3.If(z3.fpIsNaN(x), x, z3.If(z3.fpLT(x, lo), lo, z3.If(z3.fpGT(x, hi), hi, x)))
        if name == "partial_cmp":
            a, b = recv, args[0]
            if I.truth(Or(f_isnan(a), f_isnan(b))):
                return NONE
            if I.truth(f_cmp("<", a, b)):
                return Some(Enum("Ordering", "Less", []))
            if I.truth(f_eq(a, b)):
                return Some(Enum("Ordering", "Equal", []))
            return Some(Enum("Ordering", "Greater", []))
        if name == "to_string":
            return f64_to_string_sym(I, recv)
        if name == "as_value":
            return Enum("Value", "Number", [recv])
        if name == "fmt":
            args[0].fields["buf"].extend(f64_to_string_sym(I, recv))
            return Ok(UNIT)
        raise Unsupported("f64::%s" % name)
    if is_int(recv):
        if name in ("saturating_add", "saturating_sub", "checked_add", "checked_sub", "wrapping_add", "wrapping_sub", "min", "max"):
            a, b = recv, args[0]
            if name in ("min", "max"):
                lt = v_cmp(I, "<", a, b)
                pick_a = lt if name == "min" else Not(lt)
                if isinstance(pick_a, bool):
                    return a if pick_a else b
                return z3.If(pick_a, to_bv(a), to_bv(b))
            add = name.endswith("add")
            ov = Not(z3.BVAddNoOverflow(to_bv(a), to_bv(b), False)) if add else v_cmp(I, "<", a, b)
            if isinstance(a, int) and isinstance(b, int):
                ov = (a + b > U64MAX) if add else (a < b)
            raw = (a + b) & U64MAX if isinstance(a, int) and isinstance(b, int) and add else \
                  (a - b) & U64MAX if isinstance(a, int) and isinstance(b, int) else (to_bv(a) + to_bv(b) if add else to_bv(a) - to_bv(b))
            if name.startswith("wrapping"):
                return raw
            if I.truth(ov):
                if name.startswith("saturating"):
                    return U64MAX if add else 0
                return NONE
            return raw if name.startswith("saturating") else Some(raw)
        if name == "as_value":
            return Enum("Value", "Number", [usize_to_f(recv)])
        if name == "to_string":
            return display(I, recv)
        raise Unsupported("int::%s" % name)
    if isinstance(recv, Ch):
        if name == "is_whitespace":
            return is_rust_ws(recv.c)
        if name == "to_string":
            return SStr([recv])
        if name == "len_utf8":
            return utf8_width(recv.c)
        if name == "is_ascii_digit":
            return sym.cin(recv.c, 0x30, 0x39)
        if name in ("is_ascii_alphabetic", "is_ascii_alphanumeric", "is_ascii_uppercase", "is_ascii_lowercase", "is_ascii_hexdigit", "is_ascii"):
            from .nomsem import ASCII_METHODS
            return sym.cin_ranges(recv.c, ASCII_METHODS[name])
        if name == "eq":
            return sym.ceq(recv.c, args[0].c)
        raise Unsupported("char::%s" % name)
    if is_bool(recv):
        if name == "as_value":
            return Enum("Value", "Boolean", [recv])
        if name == "then":
            return Some(I.call_closure(args[0], [])) if I.truth(recv) else NONE
        if name == "fmt":
            args[0].fields["buf"].extend(from_pystr("true" if I.truth(recv) else "false"))
            return Ok(UNIT)
        raise Unsupported("bool::%s" % name)
    if isinstance(recv, Range_):
        if name == "contains":
            x = args[0]
            c = True
            if recv.start is not None:
                c = And(c, v_cmp(I, ">=", x, recv.start))
            if recv.end is not None:
                c = And(c, v_cmp(I, "<=" if recv.inclusive else "<", x, recv.end))
            return c
        raise Unsupported("Range::%s" % name)
    if isinstance(recv, OpaqueStr):
        if name in ("len", "is_empty"):
            raise Unsupported("%s of an opaque string" % name)
        if name == "fmt":
            args[0].fields["buf"].append(recv)
            return Ok(UNIT)
    if isinstance(recv, tuple) and name == "clone":
        return recv
    if isinstance(recv, Closure) or isinstance(recv, FnRef):
        if name in ("call", "call_mut"):
            return I.call_closure(recv, list(args[0]) if isinstance(args[0], tuple) else args)
    raise Unsupported("method %s on %s" % (name, type(recv).__name__))


def f_isnan(x):
    return math.isnan(x) if isinstance(x, float) else z3.fpIsNaN(x)


def f64_to_string_sym(I, x):
    if isinstance(x, float):
        return from_pystr(rust_f64_to_string(x))
    if I.branch(z3.fpIsNaN(x), "to_string NaN"):
        return from_pystr("NaN")
    if I.branch(z3.fpIsInf(x), "to_string inf"):
        return from_pystr("-inf" if I.branch(z3.fpIsNegative(x), "sign") else "inf")
    if I.branch(z3.fpIsZero(x), "to_string zero"):
        return from_pystr("-0" if I.branch(z3.fpIsNegative(x), "sign") else "0")
    return OpaqueStr("f64::to_string", x)


def parse_f64(I, s):
    """str::parse::<f64>(): exact on concrete strings; on symbolic strings the accept language is exact and the value
    of an accepted numeral is a fresh unconstrained float (except that it is not NaN unless the text is 'nan')"""
    if isinstance(s, OpaqueStr):
        if s.tag == "f64::to_string":
            return Ok(s.arg)
        raise Unsupported("parse of opaque string")
    cs = concrete_str(s)
    if cs is not None:
        v = rust_parse_f64_concrete(cs)
        return Ok(v) if v is not None else Err(Enum("ParseFloatError", "Invalid", []))
    # make the string concrete enough: fork each char into its lexical class, then decide on a representative
    rep = []
    for ch in s:
        c = ch.c
        if isinstance(c, int):
            rep.append(chr(c))
            continue
        done = False
        for lit in "+-.eEiInNfFaAtTyY":
            if I.branch(sym.ceq(c, ord(lit)), "numeral char"):
                rep.append(lit)
                done = True
                break
        if done:
            continue
        if I.branch(sym.cin(c, 0x30, 0x39), "digit"):
            rep.append("7")   # any digit: same lexical class
        else:
            rep.append("\x00")
    txt = "".join(rep)
    v = rust_parse_f64_concrete(txt)
    if v is None:
        return Err(Enum("ParseFloatError", "Invalid", []))
    if "7" not in txt:
        return Ok(v)
    # the same text (same character terms, same lexical shape) always denotes the same number
    key = (txt,) + tuple(ch.c if isinstance(ch.c, int) else ch.c.get_id() for ch in s)
    cache = I.__dict__.setdefault("parse_cache", {})
    if key not in cache:
        I.fresh += 1
        cache[key] = z3.FP("parsed%d" % I.fresh, F64)
    fv = cache[key]
    I.ex.pc.append(z3.Not(z3.fpIsNaN(fv)))
    body = txt.lstrip("+-")
    if body.isdigit() and len(body) <= 9:
        # an integer numeral of a few digits is exactly representable: give it its value
        acc = z3.BitVecVal(0, IW)
        for ch in s[len(txt) - len(body):]:
            c = ch.c
            d = z3.BitVecVal(c - 0x30, IW) if isinstance(c, int) else z3.ZeroExt(IW - sym.CW, c) - 0x30
            acc = acc * 10 + d
        mag = z3.fpToFPUnsigned(RNE, acc, F64)
        I.ex.pc.append(fv == (z3.fpNeg(mag) if txt.startswith("-") else mag))
    else:
        I.ex.pc.append(z3.Not(z3.fpIsInf(fv)) if not any(c in txt for c in "eE") else z3.BoolVal(True))
    I.ex.notes.append(("parsed", txt, fv))
    return Ok(fv)
