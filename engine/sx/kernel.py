"""S-kernel: symbolic execution of small Rust functions read from the srcdump JSON.

One run of the interpreter follows ONE path; every symbolic branch asks the decision oracle. The driver
(explore) re-runs the function until every feasible decision vector has been followed, so the result is
a list of (path condition, outcome) pairs that together cover every input of the harness.

Values   usize/u32/i64 ...  Python int | z3 BitVec(64)       (profile 'debug': overflow panics; 'release': wraps)
         f64                Python float | z3 FP(Float64)
         bool               Python bool | z3 Bool
         char               Ch(int | BitVec(21))
         String / &str      SStr(list of Ch)   -- concrete length, symbolic characters
         Vec<T>             SVec(list)
         Option/Result/enum Enum(type, variant, fields)  -- the variant is concrete on a path
         struct             Obj(type, fields dict)
"""
import math
import z3
from . import sym
from .sym import And, Or, Not

F64 = z3.Float64()
RNE = z3.RNE()
IW = 64


class Unsupported(Exception):
    pass


class Panic(Exception):
    def __init__(self, msg):
        Exception.__init__(self, msg)
        self.msg = msg


class Return(Exception):
    def __init__(self, value):
        self.value = value


class Break(Exception):
    pass


class Continue(Exception):
    pass


class Infeasible(Exception):
    pass


class Ch:
    __slots__ = ("c",)

    def __init__(self, c):
        self.c = c

    def __repr__(self):
        return "Ch(%r)" % (self.c,)


class SStr(list):
    pass


class SVec(list):
    pass


class Enum:
    file = None

    def __init__(self, ty, variant, fields=()):
        self.ty = ty
        self.variant = variant
        self.fields = list(fields)

    def __repr__(self):
        return "%s::%s%r" % (self.ty, self.variant, tuple(self.fields))


class Obj:
    file = None

    def __init__(self, ty, fields):
        self.ty = ty
        self.fields = fields

    def __repr__(self):
        return "%s%r" % (self.ty, self.fields)


class Closure:
    def __init__(self, params, body, env, file):
        self.params = params
        self.body = body
        self.env = env
        self.file = file


class FnRef:
    def __init__(self, file, fn, self_obj=None):
        self.file = file
        self.fn = fn


class Iter:
    """a Rust iterator over an already materialised list"""

    def __init__(self, items, kind="iter"):
        self.items = list(items)
        self.kind = kind
        self.pos = 0


class Range_:
    def __init__(self, start, end, inclusive=False):
        self.start = start
        self.end = end
        self.inclusive = inclusive


def Some(v):
    return Enum("Option", "Some", [v])


NONE = Enum("Option", "None", [])


def Ok(v):
    return Enum("Result", "Ok", [v])


def Err(v):
    return Enum("Result", "Err", [v])


UNIT = ()


def is_sym(x):
    return isinstance(x, z3.ExprRef)


def to_bv(x, w=IW):
    return z3.BitVecVal(x, w) if isinstance(x, int) else x


def to_fp(x):
    if isinstance(x, float):
        if math.isnan(x):
            return z3.fpNaN(F64)
        if math.isinf(x):
            return z3.fpPlusInfinity(F64) if x > 0 else z3.fpMinusInfinity(F64)
        return z3.FPVal(x, F64)
    return x


def utf8_width(c):
    """bytes of a scalar value, as int or BitVec(64)"""
    if isinstance(c, int):
        return 1 if c < 0x80 else 2 if c < 0x800 else 3 if c < 0x10000 else 4
    return z3.If(z3.ULT(c, 0x80), z3.BitVecVal(1, IW), z3.If(z3.ULT(c, 0x800), z3.BitVecVal(2, IW),
                 z3.If(z3.ULT(c, 0x10000), z3.BitVecVal(3, IW), z3.BitVecVal(4, IW))))


def from_pystr(s):
    return SStr(Ch(ord(ch)) for ch in s)


def concrete_str(v):
    """SStr with concrete chars -> python str, else None"""
    if all(isinstance(ch.c, int) for ch in v):
        return "".join(chr(ch.c) for ch in v)
    return None


class Exec:
    """one path"""

    def __init__(self, interp, prefix):
        self.I = interp
        self.prefix = list(prefix)
        self.decisions = []
        self.pc = []
        self.notes = []

    def branch(self, cond, why=""):
        if cond is True or cond is False:
            return cond
        if isinstance(cond, z3.BoolRef):
            cond = z3.simplify(cond)
            if z3.is_true(cond):
                return True
            if z3.is_false(cond):
                return False
        k = len(self.decisions)
        if k < len(self.prefix):
            # replay: entries are True/False for real decisions and "T"/"F" for conditions that had only one feasible side
            # (they are recorded too, so that the positions of a re-run line up with the run that produced the prefix)
            choice = self.prefix[k]
            self.decisions.append(choice)
            val = choice in (True, "T")
            self.pc.append(cond if val else z3.Not(cond))
            return val
        # new decision: which sides are feasible?
        s = self.I.solver
        s.push()
        for c in self.pc:
            s.add(c)
        s.push()
        s.add(cond)
        t_ok = s.check() == z3.sat
        s.pop()
        s.push()
        s.add(z3.Not(cond))
        f_ok = s.check() == z3.sat
        s.pop()
        s.pop()
        self.I.feas_queries += 2
        if t_ok and f_ok:
            self.decisions.append(True)
            self.pc.append(cond)
            return True
        if t_ok:
            self.decisions.append("T")
            self.pc.append(cond)   # implied; keep for readability of the path condition
            return True
        if f_ok:
            self.decisions.append("F")
            self.pc.append(z3.Not(cond))
            return False
        raise Infeasible()


class Interp:
    def __init__(self, dump, profile="debug", callmap=None, stubs=None, max_paths=4000):
        self.dump = dump
        self.profile = profile
        self.callmap = callmap or {}
        self.stubs = stubs or {}
        self.solver = z3.Solver()
        self.base = []
        self.feas_queries = 0
        self.max_paths = max_paths
        self.used = {}
        self.ex = None
        from . import kstd
        self.std = kstd

    def assume(self, cond):
        if cond is True:
            return
        self.base.append(cond)
        self.solver.add(cond)

    # ---- driver ---------------------------------------------------------------------------------

    # ---- RefCell borrow state (only with track_borrows): a guard lives until the end of the statement that created it,
    # or of the enclosing block when it is bound by `let g = x.borrow()`; `if`/`while` conditions drop theirs first
    track_borrows = False

    def b_reset(self):
        self.bstate = {}
        self.bframes = [[]]

    def b_push(self):
        if self.track_borrows:
            self.bframes.append([])

    def b_pop(self, keep_in_parent=False):
        if not self.track_borrows:
            return
        fr = self.bframes.pop()
        if keep_in_parent:
            self.bframes[-1].extend(fr)
            return
        for key, kind in fr:
            st = self.bstate[key]
            st[1 if kind == "mut" else 0] -= 1

    def b_borrow(self, obj, kind):
        if not self.track_borrows or isinstance(obj, (int, float, str, bool, tuple)) or obj is None:
            return
        st = self.bstate.setdefault(id(obj), [0, 0])
        if kind == "mut":
            if st[0] or st[1]:
                raise Panic("RefCell already %sborrowed (borrow_mut of %s)" % ("mutably " if st[1] else "", getattr(obj, "ty", type(obj).__name__)))
            st[1] += 1
        else:
            if st[1]:
                raise Panic("RefCell already mutably borrowed (borrow of %s)" % getattr(obj, "ty", type(obj).__name__))
            st[0] += 1
        self.bframes[-1].append((id(obj), kind))
        self.b_keepalive.append(obj)

    def explore(self, thunk):
        """thunk(interp) runs the harness body once. -> list of dict(pc, kind, value|msg, notes)"""
        results = []
        stack = [[]]
        n = 0
        while stack:
            prefix = stack.pop()
            n += 1
            if n > self.max_paths:
                raise Unsupported("more than %d paths" % self.max_paths)
            ex = Exec(self, prefix)
            self.ex = ex
            self.b_reset()
            self.b_keepalive = []
            try:
                v = thunk(self)
                out = dict(kind="ret", value=v)
            except Panic as p:
                out = dict(kind="panic", msg=p.msg)
            except Infeasible:
                out = None
            if out is not None:
                out["pc"] = list(ex.pc)
                out["notes"] = ex.notes
                results.append(out)
            for k in range(len(prefix), len(ex.decisions)):
                if ex.decisions[k] is True:
                    stack.append(ex.decisions[:k] + [False])
        self.ex = None
        return results

    def branch(self, cond, why=""):
        return self.ex.branch(cond, why)

    def concretize(self, x, lo, hi, why=""):
        """x is int or BV: return a concrete value in [lo, hi] or None (above hi), forking as needed"""
        if isinstance(x, int):
            return x if lo <= x <= hi else (None if x > hi else x)
        for v in range(lo, hi + 1):
            if self.branch(x == z3.BitVecVal(v, x.size()), why):
                return v
        return None

    # ---- function lookup --------------------------------------------------------------------------

    def find_fn(self, file, name, self_ty=None):
        if self_ty is None:
            fn = self.dump.fns.get((file, name))
            if fn:
                return fn
            raise Unsupported("no fn %s in %s" % (name, file))
        for (f, sty, nm), fns in self.dump.methods.items():
            if f == file and nm == name and sty.split("<")[0] == self_ty:
                return fns
        raise Unsupported("no method %s::%s in %s" % (self_ty, name, file))

    def call_fn(self, file, fn, args):
        self.used[(file, (fn.get("self_ty") or "") + "::" + fn["name"])] = self.dump.fn_hash(fn)
        env = {}
        params = fn["params"]
        if len(params) != len(args):
            raise Unsupported("arity of %s" % fn["name"])
        for p, a in zip(params, args):
            if p.get("self"):
                env["self"] = a
            else:
                if isinstance(a, Obj) and "XmlItem" in (p.get("ty") or ""):
                    a = self.coerce_into(a, p["ty"])       # `f(Rc::new(x.into()))` with a parameter of the enum type
                self.bind(p["pat"], a, env)
        env["__file__"] = file
        env["__fn__"] = fn["name"]
        env["__ret__"] = fn.get("ret") or ""
        env["__self_ty__"] = (fn.get("self_ty") or "").split("<")[0].strip() or None
        self.b_push()
        try:
            try:
                v = self.block(fn["body"], env)
            except Return as r:
                v = r.value
        finally:
            self.b_pop()
        return self._ret_coerce(fn, v)

    def _ret_coerce(self, fn, v):
        """a struct value returned where the signature names a repo enum built from it (`Rc::new(x.into())`)"""
        ret = (fn.get("ret") or "").replace("Self", fn.get("self_ty") or "Self")
        if "XmlItem" not in ret:
            return v
        if isinstance(v, Enum) and v.ty == "Result" and v.variant == "Ok" and isinstance(v.fields[0], Obj):
            v.fields[0] = self.coerce_into(v.fields[0], ret)
        elif isinstance(v, Obj):
            v = self.coerce_into(v, ret)
        return v

    # ---- patterns ---------------------------------------------------------------------------------

    def bind(self, pat, v, env):
        """irrefutable binding"""
        if not self.match(pat, v, env):
            raise Unsupported("refutable pattern in let/param: %s" % pat.get("k"))

    def match(self, pat, v, env):
        k = pat["k"]
        if k == "ident":
            if pat.get("sub"):
                if not self.match(pat["sub"], v, env):
                    return False
            # an identifier pattern that names a unit variant / const (None) is a path in syn, so this binds
            env[pat["name"]] = v
            env.setdefault("__locals__", set()).add(pat["name"])
            return True
        if k == "wild" or k == "rest":
            return True
        if k == "typed":
            return self.match(pat["pat"], v, env)
        if k == "ref":
            return self.match(pat["pat"], v, env)
        if k == "tuple":
            if not isinstance(v, tuple) or len(v) != len(pat["elems"]):
                raise Unsupported("tuple pattern against %r" % (type(v),))
            return all(self.match(p, x, env) for p, x in zip(pat["elems"], v))
        if k == "tuplestruct":
            name = pat["path"]["segs"][-1]
            if not isinstance(v, Enum):
                raise Unsupported("tuple-struct pattern %s against %r" % (name, type(v)))
            if v.variant != name:
                return False
            if len(pat["elems"]) == 1 and pat["elems"][0]["k"] == "rest":
                return True
            if len(pat["elems"]) != len(v.fields):
                raise Unsupported("pattern arity for %s" % name)
            return all(self.match(p, x, env) for p, x in zip(pat["elems"], v.fields))
        if k == "path":
            name = pat["path"]["segs"][-1]
            if isinstance(v, Enum):
                return v.variant == name
            # associated consts: f64::INFINITY ...
            segs = pat["path"]["segs"]
            if segs[0] == "f64":
                c = {"INFINITY": float("inf"), "NEG_INFINITY": float("-inf"), "NAN": float("nan")}.get(segs[-1])
                if c is None:
                    raise Unsupported("const pattern %s" % segs)
                if segs[-1] == "NAN":
                    return False
                return self.branch(self.std.f_eq(v, c), "match const")
            raise Unsupported("path pattern %s" % segs)
        if k == "lit":
            lit = self.lit(pat["lit"])
            return self.branch(self.std.v_eq(self, v, lit), "match literal")
        if k == "or":
            for c in pat["cases"]:
                e2 = dict(env)
                if self.match(c, v, e2):
                    env.update(e2)
                    return True
            return False
        if k == "struct":
            if isinstance(v, Enum):
                if v.variant != pat["path"]["segs"][-1]:
                    return False
                raise Unsupported("struct-variant pattern")
            if not isinstance(v, Obj):
                raise Unsupported("struct pattern against %r" % type(v))
            return all(self.match(f["pat"], v.fields[f["member"]], env) for f in pat["fields"])
        if k == "range":
            lo = self.lit(pat["start"]) if pat["start"] else None
            hi = self.lit(pat["end"]) if pat["end"] else None
            c = True
            if lo is not None:
                c = And(c, self.std.v_cmp(self, ">=", v, lo))
            if hi is not None:
                c = And(c, self.std.v_cmp(self, "<=" if pat["inclusive"] else "<", v, hi))
            return self.branch(c, "range pattern")
        raise Unsupported("pattern kind %s" % k)

    # ---- statements / expressions -------------------------------------------------------------------

    def lit(self, e):
        t = e["t"]
        if t == "str":
            return from_pystr(e["v"])
        if t == "char":
            return Ch(e["v"])
        if t == "int":
            if e.get("suffix") in ("f64", "f32"):
                return float(e["v"])
            return int(e["v"])
        if t == "float":
            return float(e["v"])
        if t == "bool":
            return bool(e["v"])
        raise Unsupported("literal %s" % t)

    def block(self, b, env):
        env = dict(env) if False else env
        last = UNIT
        stmts = b["stmts"]
        if self.track_borrows:
            return self._block_tracked(b, env)
        for k, st in enumerate(stmts):
            kind = st["k"]
            if kind == "let":
                v = self.ev(st["init"], env) if st["init"] is not None else None
                if st["pat"]["k"] == "typed" and isinstance(v, Obj):
                    v = self.coerce_into(v, st["pat"]["ty"])
                if st["else"] is not None:
                    e2 = dict(env)
                    if self.match(st["pat"], v, e2):
                        env.update(e2)
                    else:
                        self.ev(st["else"], env)
                        raise Unsupported("let-else fell through")
                elif v is not None or st["init"] is not None:
                    self.bind(st["pat"], v, env)
                last = UNIT
            elif kind == "expr":
                v = self.ev(st["e"], env)
                last = UNIT if st["semi"] else v
            elif kind == "item_fn":
                env[st["fn"]["name"]] = FnRef(env.get("__file__"), st["fn"])
                last = UNIT
            elif kind == "item":
                last = UNIT
            else:
                raise Unsupported("stmt %s" % kind)
        return last

    def _block_tracked(self, b, env):
        """block() with RefCell guard lifetimes: one frame per statement inside one frame for the block"""
        self.b_push()
        try:
            last = UNIT
            for st in b["stmts"]:
                kind = st["k"]
                self.b_push()
                keep = False
                try:
                    if kind == "let":
                        v = self.ev(st["init"], env) if st["init"] is not None else None
                        if st["pat"]["k"] == "typed" and isinstance(v, Obj):
                            v = self.coerce_into(v, st["pat"]["ty"])
                        # `let g = x.borrow();` / `let g = &*x.borrow_mut();`: the guard is bound, it lives to the end of the block
                        ie = st["init"]
                        while ie is not None and ie["k"] in ("ref", "unary", "paren") and "e" in ie:
                            ie = ie["e"]
                        keep = ie is not None and ie["k"] == "mcall" and ie.get("method") in ("borrow", "borrow_mut")
                        if st["else"] is not None:
                            e2 = dict(env)
                            if self.match(st["pat"], v, e2):
                                env.update(e2)
                            else:
                                self.ev(st["else"], env)
                                raise Unsupported("let-else fell through")
                        elif v is not None or st["init"] is not None:
                            self.bind(st["pat"], v, env)
                        last = UNIT
                    elif kind == "expr":
                        v = self.ev(st["e"], env)
                        last = UNIT if st["semi"] else v
                    elif kind == "item_fn":
                        env[st["fn"]["name"]] = FnRef(env.get("__file__"), st["fn"])
                        last = UNIT
                    elif kind == "item":
                        last = UNIT
                    else:
                        raise Unsupported("stmt %s" % kind)
                finally:
                    self.b_pop(keep_in_parent=keep)
            return last
        finally:
            self.b_pop()

    def ev(self, e, env):
        k = e["k"]
        m = getattr(self, "e_" + k, None)
        if m is None:
            raise Unsupported("expression kind %s" % k)
        return m(e, env)

    def e_lit(self, e, env):
        return self.lit(e)

    def e_block(self, e, env):
        env2 = self.scope(env)
        r = self.block(e, env2)
        self._writeback(env, env2)
        return r

    def e_path(self, e, env):
        segs = e["segs"]
        if len(segs) == 1:
            n = segs[0]
            if n in env:
                return env[n]
            if n == "None":
                return NONE
            fn = self.dump.fns.get((env.get("__file__"), n))
            if fn:
                return FnRef(env["__file__"], fn)
            raise Unsupported("unbound name %s" % n)
        return self.std.path_value(self, segs, env)

    def e_tuple(self, e, env):
        return tuple(self.ev(x, env) for x in e["elems"])

    def e_ref(self, e, env):
        return self.ev(e["e"], env)

    def e_cast(self, e, env):
        return self.std.cast(self, self.ev(e["e"], env), e["ty"].replace(" ", ""))

    def e_unary(self, e, env):
        v = self.ev(e["e"], env)
        op = e["op"]
        if op == "*":
            return v
        if op == "!":
            if isinstance(v, bool):
                return not v
            if isinstance(v, z3.BoolRef):
                return Not(v)
            raise Unsupported("! on non-bool")
        if op == "-":
            return self.std.neg(self, v)
        raise Unsupported("unary %s" % op)

    def e_binary(self, e, env):
        op = e["op"]
        if op in ("&&", "||"):
            a = self.truth(self.ev(e["l"], env))
            if op == "&&":
                return self.truth(self.ev(e["r"], env)) if a else False
            return True if a else self.truth(self.ev(e["r"], env))
        if op.endswith("=") and op not in ("==", "!=", "<=", ">="):
            # compound assignment
            cur = self.ev(e["l"], env)
            r = self.ev(e["r"], env)
            v = self.std.binop(self, op[:-1], cur, r)
            self.assign(e["l"], v, env)
            return UNIT
        a = self.ev(e["l"], env)
        b = self.ev(e["r"], env)
        return self.std.binop(self, op, a, b)

    def truth(self, v):
        return self.branch(v, "condition")

    def e_if(self, e, env):
        c = e["cond"]
        env2 = self.scope(env)
        if c["k"] == "letcond":
            v = self.ev(c["expr"], env)
            taken = self.match(c["pat"], v, env2)
        else:
            self.b_push()
            try:
                taken = self.truth(self.ev(c, env))
            finally:
                self.b_pop()
        if taken:
            r = self.block(e["then"], env2)
            self._writeback(env, env2)
            return r
        if e["else"] is not None:
            env3 = self.scope(env)
            r = self.ev(e["else"], env3) if e["else"]["k"] != "block" else self.block(e["else"], env3)
            self._writeback(env, env3)
            return r
        return UNIT

    def scope(self, env):
        e2 = dict(env)
        e2["__locals__"] = set()
        return e2

    def _writeback(self, outer, inner):
        loc = inner.get("__locals__", ())
        for k in outer:
            if k != "__locals__" and k in inner and k not in loc and inner[k] is not outer[k]:
                outer[k] = inner[k]

    def e_match(self, e, env):
        v = self.ev(e["expr"], env)
        for arm in e["arms"]:
            env2 = self.scope(env)
            if self.match(arm["pat"], v, env2):
                if arm["guard"] is not None and not self.truth(self.ev(arm["guard"], env2)):
                    continue
                r = self.ev(arm["body"], env2)
                self._writeback(env, env2)
                return r
        raise Panic("non-exhaustive match fell through (model)")

    def e_try(self, e, env):
        v = self.ev(e["e"], env)
        if not isinstance(v, Enum):
            raise Unsupported("? on %r" % type(v))
        if v.variant in ("Ok", "Some"):
            return v.fields[0]
        if v.variant == "Err":
            raise Return(Err(v.fields[0]))
        if v.variant == "None":
            raise Return(NONE)
        raise Unsupported("? on %s" % v.variant)

    def e_return(self, e, env):
        raise Return(self.ev(e["e"], env) if e["e"] is not None else UNIT)

    def e_break(self, e, env):
        raise Break()

    def e_continue(self, e, env):
        raise Continue()

    def e_closure(self, e, env):
        return Closure(e["params"], e["body"], env, env.get("__file__"))

    def call_closure(self, c, args):
        if isinstance(c, FnRef):
            return self.call_fn(c.file, c.fn, args)
        if callable(c):
            return c(*args)
        env = dict(c.env)
        env["__locals__"] = set()
        for p, a in zip(c.params, args):
            self.bind(p, a, env)
        own = set(env.get("__locals__", ()))        # the closure's own parameters: they shadow, they are not captured
        try:
            return self.ev(c.body, env)
        finally:
            # closures capturing by reference: propagate assignments to captured variables
            for k2 in c.env:
                if k2 in own or k2 == "__locals__":
                    continue
                if k2 in env and env[k2] is not c.env[k2]:
                    c.env[k2] = env[k2]

    def e_field(self, e, env):
        b = self.ev(e["base"], env)
        m = e["member"]
        if isinstance(b, tuple):
            return b[int(m)]
        if isinstance(b, Obj):
            if m not in b.fields:
                raise Unsupported("field %s of %s" % (m, b.ty))
            return b.fields[m]
        if isinstance(b, Range_):
            return getattr(b, m)
        raise Unsupported("field %s on %r" % (m, type(b)))

    def assign(self, target, v, env):
        k = target["k"]
        if k == "path" and len(target["segs"]) == 1:
            env[target["segs"][0]] = v
            return
        if k == "field":
            b = self.ev(target["base"], env)
            if isinstance(b, Obj):
                b.fields[target["member"]] = v
                return
        if k == "unary" and target["op"] == "*":
            return self.assign(target["e"], v, env)
        if k == "other" and target.get("src", "").strip() == "_":
            return
        if k == "tuple":
            for t, x in zip(target["elems"], v):
                if (t["k"] == "path" and t["segs"] == ["_"]) or (t["k"] == "other" and t.get("src", "").strip() == "_"):
                    continue
                self.assign(t, x, env)
            return
        if k == "index":
            base = self.ev(target["e"], env)
            idx = self.ev(target["index"], env)
            i = self.concretize(idx, 0, len(base) - 1, "index")
            if i is None:
                raise Panic("index out of bounds")
            base[i] = v
            return
        raise Unsupported("assignment target %s" % k)

    def e_assign(self, e, env):
        v = self.ev(e["right"], env)
        if e["left"]["k"] == "path" and e["left"]["segs"] == ["_"]:
            return UNIT
        self.assign(e["left"], v, env)
        return UNIT

    def e_struct(self, e, env):
        segs = e["path"]["segs"]
        fields = {}
        if e["rest"] is not None:
            base = self.ev(e["rest"], env)
            fields.update(base.fields)
        for f in e["fields"]:
            fields[f["member"]] = self.ev(f["e"], env)
        if len(segs) >= 2 and segs[-2][0].isupper() and segs[-1][0].isupper():
            r = Enum(segs[-2], segs[-1], [Obj(segs[-1], fields)])
        else:
            r = Obj(segs[-1], fields)
        r.file = self.type_files.get(r.ty, [env.get("__file__")])[0]
        return r

    def e_range(self, e, env):
        return Range_(self.ev(e["start"], env) if e["start"] else None, self.ev(e["end"], env) if e["end"] else None, e["inclusive"])

    def e_array(self, e, env):
        return SVec(self.ev(x, env) for x in e["elems"])

    def e_index(self, e, env):
        base = self.ev(e["e"], env)
        idx = self.ev(e["index"], env)
        return self.std.index(self, base, idx)

    def e_macro(self, e, env):
        return self.std.macro(self, e, env)

    def e_for(self, e, env):
        it = self.std.into_iter(self, self.ev(e["iter"], env))
        for x in it:
            env2 = self.scope(env)
            self.bind(e["pat"], x, env2)
            try:
                self.block(e["body"], env2)
            except Break:
                self._writeback(env, env2)
                break
            except Continue:
                pass
            self._writeback(env, env2)
        return UNIT

    def e_while(self, e, env):
        n = 0
        while True:
            n += 1
            if n > 64:
                raise Unsupported("while loop bound")
            c = e["cond"]
            env2 = self.scope(env)
            if c["k"] == "letcond":
                if not self.match(c["pat"], self.ev(c["expr"], env), env2):
                    break
            else:
                self.b_push()
                try:
                    go = self.truth(self.ev(c, env))
                finally:
                    self.b_pop()
                if not go:
                    break
            try:
                self.block(e["body"], env2)
            except Break:
                self._writeback(env, env2)
                break
            except Continue:
                pass
            self._writeback(env, env2)
        return UNIT

    def e_loop(self, e, env):
        for _ in range(64):
            env2 = self.scope(env)
            try:
                self.block(e["body"], env2)
            except Break:
                self._writeback(env, env2)
                return UNIT
            except Continue:
                pass
            self._writeback(env, env2)
        raise Unsupported("loop bound")

    def e_call(self, e, env):
        f = e["func"]
        args = [self.ev(a, env) for a in e["args"]]
        if f["k"] == "path":
            segs = f["segs"]
            if len(segs) == 1 and segs[0] in env:
                return self.call_closure(env[segs[0]], args)
            return self.std.call_path(self, segs, args, env, f)
        fv = self.ev(f, env)
        return self.call_closure(fv, args)

    def e_mcall(self, e, env):
        recv = self.ev(e["recv"], env)
        args = [self.ev(a, env) for a in e["args"]]
        r = self.std.method(self, recv, e["method"], args, e, env)
        return r


# ---- repo-level dispatch (methods of Obj / Enum values, trait impls) -----------------------------------------

def _rt_type(v):
    from . import kstd
    if isinstance(v, bool) or isinstance(v, z3.BoolRef):
        return "bool"
    if kstd.is_f64(v):
        return "f64"
    if isinstance(v, (SStr, kstd.OpaqueStr)):
        return "String"
    if kstd.is_int(v):
        return "usize"
    if isinstance(v, (Obj, Enum)):
        return v.ty
    return type(v).__name__


def _interp_methods(cls):
    def resolve_fn(self, segs, env):
        cur = env.get("__file__")
        if len(segs) == 1:
            fn = self.dump.fns.get((cur, segs[0]))
            return (cur, fn) if fn else None
        r = self.dump.resolve(segs, cur)
        if r and (r[0] in self.files_in_scope or not self.files_in_scope):
            return r
        return None

    def find_assoc(self, ty, name, env):
        for (f, sty, nm), fns in self.dump.methods.items():
            if nm == name and sty.split("<")[0] == ty and (f == env.get("__file__") or f in self.type_files.get(ty, [f])):
                inherent = [fn for fn in fns if fn.get("trait") is None]
                if inherent:
                    return (f, inherent[0])
        return None

    def methods_of(self, ty, file, name):
        out = []
        for (f, sty, nm), fns in self.dump.methods.items():
            if nm == name and f == file and sty.split("<")[0] == ty:
                out += [(f, fn) for fn in fns]
        if not out:
            # default methods of traits declared in the same file
            for (f, sty, nm), fns in self.dump.methods.items():
                if nm == name and f == file:
                    out += [(f, fn) for fn in fns if fn.get("trait_default")]
            if len(out) > 1:
                # several traits declare a default of this name: keep those the type is known to implement
                known = set()
                for (f, sty, nm), fns in self.dump.methods.items():
                    if f == file and sty.split("<")[0] == ty:
                        known.update((fn.get("trait") or "").replace(" ", "").split("<")[0] for fn in fns)
                sel = [c for c in out if (c[1].get("trait") or "").replace(" ", "") in known]
                if sel:
                    out = sel
        return out

    def coerce_into(self, v, ty):
        """`let x: T = <struct value>.into()`: apply `impl From<..V..> for T` when T is a repo enum and V the value's type"""
        import re
        names = re.findall(r"[A-Za-z_][A-Za-z_0-9]*", ty)
        for (f, sty, nm), fns in self.dump.methods.items():
            if nm != "from" or sty not in names or sty == v.ty:
                continue
            for fn in fns:
                tr = (fn.get("trait") or "").replace(" ", "")
                if re.search(r"[<:]%s>" % re.escape(v.ty), tr) and tr.startswith("From<"):
                    return self.call_fn(f, fn, [v])
        return v

    def try_repo_method(self, recv, name, args):
        file = getattr(recv, "file", None)
        if file is None:
            return NotImplemented
        cands = self.methods_of(recv.ty, file, name)
        if not cands:
            return NotImplemented
        if len(cands) > 1:
            # several trait impls with the same method name: pick by the run-time type of the argument
            if args:
                want = _rt_type(args[0])
                sel = [c for c in cands if (c[1].get("trait") or "").replace(" ", "").endswith("<%s>" % want)]
                if len(sel) == 1:
                    cands = sel
            if len(cands) > 1:
                sel = [c for c in cands if c[1].get("trait") is None]
                if len(sel) == 1:
                    cands = sel
            if len(cands) > 1 and name == "fmt":
                cands = [c for c in cands if "Display" in (c[1].get("trait") or "")]
            if len(cands) != 1:
                raise Unsupported("ambiguous method %s::%s" % (recv.ty, name))
        f, fn = cands[0]
        return self.call_fn(f, fn, [recv] + list(args))

    def call_method_of(self, v, name, args):
        r = self.try_repo_method(v, name, args[1:])
        if r is NotImplemented:
            raise Unsupported("no impl of %s for %s" % (name, getattr(v, "ty", type(v).__name__)))
        return r

    def call_tryfrom(self, target, arg):
        file = getattr(arg, "file", None)
        for (f, sty, nm), fns in self.dump.methods.items():
            if nm == "try_from" and sty == target and (file is None or f == file):
                for fn in fns:
                    return self.call_fn(f, fn, [arg])
        raise Unsupported("no TryFrom impl for %s" % target)

    def call_display(self, v):
        cands = [c for c in self.methods_of(v.ty, v.file, "fmt") if "Display" in (c[1].get("trait") or "")]
        if len(cands) != 1:
            raise Unsupported("Display impl of %s" % v.ty)
        fm = Obj("Formatter", {"buf": SStr()})
        r = self.call_fn(cands[0][0], cands[0][1], [v, fm])
        return fm.fields["buf"]

    def default_hint(self, e):
        """T::default() for `opt.unwrap_or_default()`: guessed from the closure that produced the option's payload"""
        r = e.get("recv", {})
        if r.get("k") == "mcall" and r.get("method") in ("map", "and_then") and r["args"] and r["args"][0].get("k") == "closure":
            b = r["args"][0]["body"]
            while b.get("k") == "block" and b["stmts"] and b["stmts"][-1]["k"] == "expr":
                b = b["stmts"][-1]["e"]
            if b.get("k") == "binary":
                if b["op"] in ("==", "!=", "<", "<=", ">", ">=", "&&", "||"):
                    return False
                if b["op"] in ("+", "-", "*", "/"):
                    return 0
            if b.get("k") == "unary" and b["op"] == "!":
                return False
        if r.get("k") == "mcall" and r.get("method") == "position":
            return 0
        # `self.field.unwrap_or_default()` / `x.field...`: the declared type of the struct field
        base = r
        while base.get("k") == "mcall" and base.get("method") in ("clone", "as_ref", "as_deref", "borrow", "cloned", "copied"):
            base = base.get("recv", {})
        if base.get("k") == "field":
            fname = base.get("member")
            for items in self.dump.items.values():
                for it in items:
                    if "struct" in it:
                        for f in it["fields"]:
                            if f.get("name") == fname:
                                ty = (f.get("ty") or "").replace(" ", "")
                                if ty.startswith("Option<"):
                                    inner = ty[len("Option<"):-1]
                                    if inner == "bool":
                                        return False
                                    if inner in ("usize", "u8", "u16", "u32", "u64", "i32", "i64", "isize"):
                                        return 0
                                    if inner == "f64":
                                        return 0.0
                                    if inner.startswith("Vec<"):
                                        return SVec()
                                    if inner in ("String", "&str") or inner.startswith("&'"):
                                        return SStr()
        return SStr()

    def type_hint(self, e, env):
        return env.get("__ret__", "")

    cls.resolve_fn = resolve_fn
    cls.find_assoc = find_assoc
    cls.methods_of = methods_of
    cls.try_repo_method = try_repo_method
    cls.coerce_into = coerce_into
    cls.call_method_of = call_method_of
    cls.call_tryfrom = call_tryfrom
    cls.call_display = call_display
    cls.default_hint = default_hint
    cls.type_hint = type_hint
    cls.files_in_scope = ()
    cls.type_files = {}
    cls.fresh = 0


_interp_methods(Interp)


def mk_obj(ty, file, **fields):
    o = Obj(ty, fields)
    o.file = file
    return o


def mk_enum(ty, file, variant, *fields):
    e = Enum(ty, variant, fields)
    e.file = file
    return e
