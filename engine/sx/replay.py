"""Driver for /verif/replay: builds it from /repo's current tree and feeds it JSON cases."""
import json
import os
import subprocess

ROOT = os.path.abspath(os.path.join(os.path.dirname(__file__), "..", ".."))
TARGET = os.path.join(ROOT, "build", "replay")
ENV = dict(os.environ, CARGO_NET_OFFLINE="true", RUSTFLAGS=os.environ.get("RUSTFLAGS", "") + " -Awarnings")


class ReplayError(Exception):
    pass


def build(release=False):
    cmd = ["cargo", "build", "--offline", "--quiet", "--target-dir", TARGET]
    if release:
        cmd.append("--release")
    lock = os.path.join(ROOT, "replay", "Cargo.lock")
    r = subprocess.run(cmd, cwd=os.path.join(ROOT, "replay"), env=ENV, capture_output=True, text=True)
    if r.returncode != 0:
        raise ReplayError("replay build failed:\n" + r.stderr[-3000:])
    return os.path.join(TARGET, "release" if release else "debug", "replay")


class Replay:
    def __init__(self, release=False):
        self.bin = build(release)
        self.p = subprocess.Popen([self.bin], stdin=subprocess.PIPE, stdout=subprocess.PIPE, text=True, bufsize=1)
        self.n = 0

    def run(self, case):
        self.p.stdin.write(json.dumps(case) + "\n")
        self.p.stdin.flush()
        line = self.p.stdout.readline()
        self.n += 1
        if not line:
            # process died (abort / stack overflow): restart and report
            code = self.p.wait()
            self.p = subprocess.Popen([self.bin], stdin=subprocess.PIPE, stdout=subprocess.PIPE, text=True, bufsize=1)
            return {"died": code}
        return json.loads(line)

    def run_many(self, cases):
        return [self.run(c) for c in cases]

    def close(self):
        try:
            self.p.stdin.close()
            self.p.wait(timeout=5)
        except Exception:
            self.p.kill()
