"""Top-down activation pass over a nomsem.Run.

act[(node.id, i)] = condition under which `node` is applied at position i *and its result is
used* on the (unique, deterministic) successful parse of the root. nom parsers are deterministic,
so every (node, i) has one result; the edges below say which child applications a successful
parent application uses.
"""
from .sym import And, Or, Not
from . import nomsem


def child_edges(run, node, i):
    """yield (kid, j, cond): given that (node, i) is on the success path, (kid, j) is too when cond"""
    k = node.kind
    g = run.g
    if k == "ref":
        yield (g.body_of(node), i, True)
    elif k in ("map", "recognize", "take_until", "take_except", "verify"):
        yield (node.kids[0], i, True)
    elif k == "opt":
        yield (node.kids[0], i, run.ends(node.kids[0], i).ok())
    elif k == "seq":
        cur = {i: True}
        for kid in node.kids:
            nxt = {}
            for j, cj in cur.items():
                yield (kid, j, cj)
                for e, ce in run.ends(kid, j).items():
                    v = And(cj, ce)
                    if v is not False:
                        nxt[e] = Or(nxt.get(e, False), v)
            cur = nxt
    elif k == "alt":
        none_before = True
        for kid in node.kids:
            r = run.ends(kid, i)
            ok = r.ok()
            yield (kid, i, And(none_before, ok))
            none_before = And(none_before, Not(ok))
            if none_before is False:
                break
    elif k in ("many0", "many1"):
        kid = node.kids[0]
        heads = {i: True}
        for j in range(i, run.L + 1):
            h = heads.pop(j, False)
            if h is False:
                continue
            r = run.ends(kid, j)
            yield (kid, j, And(h, Or(*[c for e, c in r.items() if e > j])))
            for e, ce in r.items():
                if e > j:
                    heads[e] = Or(heads.get(e, False), And(h, ce))
    elif k in ("separated_list0", "separated_list1"):
        sep, f = node.kids
        r0 = run.ends(f, i)
        yield (f, i, r0.ok())
        heads = {}
        for e, ce in r0.items():
            heads[e] = Or(heads.get(e, False), ce)
        for j in range(i, run.L + 1):
            h = heads.pop(j, False)
            if h is False:
                continue
            rs = run.ends(sep, j)
            for e, cs in rs.items():
                if e == j:
                    continue
                rf = run.ends(f, e)
                used = And(h, cs, rf.ok())
                yield (sep, j, used)
                yield (f, e, used)
                for m, cf in rf.items():
                    heads[m] = Or(heads.get(m, False), And(h, cs, cf))
    elif k in ("peek", "not", "all_consuming"):
        if k != "not":
            yield (node.kids[0], i, True)
    elif k in ("tag", "tag_nc", "class0", "class1", "one", "eof"):
        pass
    else:
        raise nomsem.Unsupported("activation through %s" % k)


def activation(run, root, root_cond):
    """returns dict (node.id, i) -> (node, cond)"""
    return activation_from(run, root, 0, root_cond)


def activation_from(run, root, start, root_cond):
    """activation restricted to the application of `root` at position `start`"""
    # discover the instance graph
    edges = {}     # key -> list of (childkey, cond)
    nodes = {}
    indeg = {}
    rootkey = (root.id, start)
    nodes[rootkey] = root
    stack = [rootkey]
    seen = {rootkey}
    while stack:
        key = stack.pop()
        node = nodes[key]
        outs = []
        for kid, j, c in child_edges(run, node, key[1]):
            if c is False:
                continue
            ck = (kid.id, j)
            outs.append((ck, c))
            indeg[ck] = indeg.get(ck, 0) + 1
            if ck not in seen:
                seen.add(ck)
                nodes[ck] = kid
                stack.append(ck)
        edges[key] = outs
    # Kahn
    act = {rootkey: root_cond}
    ready = [rootkey]
    done = 0
    while ready:
        key = ready.pop()
        done += 1
        a = act.get(key, False)
        for ck, c in edges[key]:
            v = And(a, c)
            if v is not False:
                act[ck] = Or(act.get(ck, False), v)
            indeg[ck] -= 1
            if indeg[ck] == 0:
                ready.append(ck)
    if done != len(nodes):
        raise nomsem.Unsupported("cyclic instance graph")
    return {k: (nodes[k], c) for k, c in act.items() if c is not False}


def find_nodes(g, prod_ref, pred):
    """nodes inside the body of production `prod_ref` (not descending into other productions) satisfying pred, pre-order"""
    out = []

    def walk(n):
        if pred(n):
            out.append(n)
        if n.kind == "ref":
            return
        for kid in n.kids:
            walk(kid)
    walk(g.body_of(prod_ref))
    return out


# ------------------------------------------------------------------------------------------------
# entry counts (work semantics): how often nom *enters* a parser at a position during one run of
# the root, with no memoisation and failed alternatives included. Counts are small saturating
# bit-vectors, so "some production is entered more than T times at one position" is cheap to decide.

def work_edges(run, node, i):
    """yield (kid, j, cond): every time (node, i) is entered, (kid, j) is entered once when cond"""
    k = node.kind
    g = run.g
    if k == "ref":
        yield (g.body_of(node), i, True)
    elif k in ("map", "recognize", "take_until", "take_except", "verify", "opt", "peek", "not", "all_consuming"):
        yield (node.kids[0], i, True)
    elif k == "seq":
        cur = {i: True}
        for kid in node.kids:
            nxt = {}
            for j, cj in cur.items():
                yield (kid, j, cj)
                for e, ce in run.ends(kid, j).items():
                    v = And(cj, ce)
                    if v is not False:
                        nxt[e] = Or(nxt.get(e, False), v)
            cur = nxt
    elif k == "alt":
        none_before = True
        for kid in node.kids:
            yield (kid, i, none_before)
            none_before = And(none_before, Not(run.ends(kid, i).ok()))
            if none_before is False:
                break
    elif k in ("many0", "many1"):
        kid = node.kids[0]
        heads = {i: True}
        for j in range(i, run.L + 1):
            h = heads.pop(j, False)
            if h is False:
                continue
            yield (kid, j, h)
            for e, ce in run.ends(kid, j).items():
                if e > j:
                    heads[e] = Or(heads.get(e, False), And(h, ce))
    elif k in ("separated_list0", "separated_list1"):
        sep, f = node.kids
        yield (f, i, True)
        heads = {}
        for e, ce in run.ends(f, i).items():
            heads[e] = Or(heads.get(e, False), ce)
        for j in range(i, run.L + 1):
            h = heads.pop(j, False)
            if h is False:
                continue
            yield (sep, j, h)
            for e, cs in run.ends(sep, j).items():
                if e == j:
                    continue
                yield (f, e, And(h, cs))
                for m, cf in run.ends(f, e).items():
                    heads[m] = Or(heads.get(m, False), And(h, cs, cf))
    elif k in ("tag", "tag_nc", "class0", "class1", "one", "eof"):
        pass
    else:
        raise nomsem.Unsupported("work edges through %s" % k)


def _key(node, i):
    # all sites of one production share their entries: the count is per (production, position)
    return (("P",) + tuple(node.arg), i) if node.kind == "ref" else (node.id, i)


def entry_counts(run, root, start=0, bits=5):
    """-> dict key -> (node, count) with count an int or BitVec(bits) saturating at 2^bits - 1"""
    import z3
    cap = (1 << bits) - 1
    edges, nodes, indeg = {}, {}, {}
    rk = _key(root, start)
    nodes[rk] = (root, start)
    stack = [rk]
    while stack:
        key = stack.pop()
        node, i = nodes[key]
        outs = []
        for kid, j, c in work_edges(run, node, i):
            if c is False:
                continue
            ck = _key(kid, j)
            outs.append((ck, c))
            indeg[ck] = indeg.get(ck, 0) + 1
            if ck not in nodes:
                nodes[ck] = (kid, j)
                stack.append(ck)
        edges[key] = outs

    def sat_add(a, b):
        if isinstance(a, int) and isinstance(b, int):
            return min(cap, a + b)
        if isinstance(a, int):
            a = z3.BitVecVal(a, bits)
        if isinstance(b, int):
            b = z3.BitVecVal(b, bits)
        s = z3.ZeroExt(1, a) + z3.ZeroExt(1, b)
        return z3.If(z3.UGT(s, cap), z3.BitVecVal(cap, bits), z3.Extract(bits - 1, 0, s))

    def gate(c, n):
        if c is True:
            return n
        if isinstance(n, int):
            if n == 0:
                return 0
            n = z3.BitVecVal(n, bits)
        return z3.If(c, n, z3.BitVecVal(0, bits))

    cnt = {rk: 1}
    ready = [rk]
    done = 0
    while ready:
        key = ready.pop()
        done += 1
        n = cnt.get(key, 0)
        for ck, c in edges[key]:
            cnt[ck] = sat_add(cnt.get(ck, 0), gate(c, n))
            indeg[ck] -= 1
            if indeg[ck] == 0:
                ready.append(ck)
    if done != len(nodes):
        raise nomsem.Unsupported("cyclic invocation graph")
    return {k: (nodes[k][0], nodes[k][1], c) for k, c in cnt.items()}


def production_counts(run, root, start=0, bits=5):
    """entries per (production name, position)"""
    out = {}
    for k, (node, i, c) in entry_counts(run, root, start, bits).items():
        if node.kind == "ref":
            out[(node.arg[1], i)] = c
    return out


def concrete_total_entries(g, root, s):
    """for replay: exact (unsaturated) number of entries per production name on a concrete input"""
    from . import sym as _sym
    run = nomsem.Run(g, _sym.Input.concrete(s))
    tot = {}
    for (name, i), c in production_counts(run, root, 0, bits=40).items():
        if not isinstance(c, int):
            raise nomsem.Unsupported("symbolic count on concrete input")
        tot[name] = tot.get(name, 0) + c
    return tot


def find_nodes_in(node, pred):
    """nodes below `node` (not descending into other productions) satisfying pred"""
    out = []

    def walk(n):
        if pred(n):
            out.append(n)
        if n.kind == "ref":
            return
        for kid in n.kids:
            walk(kid)
    walk(node)
    return out
