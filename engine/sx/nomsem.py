"""S-grammar: nom grammars read from the srcdump JSON and given nom 7.1.3 semantics.

translate:  dumped fn bodies  ->  PEG IR (Node)
evaluate:   Node x concrete start position  ->  Ends {end position: condition}
The same evaluator is the concrete interpreter (all characters concrete => all
conditions are Python bools) and the symbolic encoder (characters are bit-vectors).
"""
import json
import os
import subprocess
import hashlib
from . import sym
from .sym import And, Or, Not, Ends

SRCDUMP = os.path.join(os.path.dirname(__file__), "..", "srcdump", "target", "debug", "srcdump")


class Unsupported(Exception):
    """construct the translator does not understand -> obligation inconclusive"""


# ------------------------------------------------------------------------------------------------
# dump loading


class Dump:
    def __init__(self, files):
        self.files = list(files)
        out = subprocess.run([SRCDUMP] + self.files, capture_output=True, text=True)
        if out.returncode != 0:
            raise Unsupported("srcdump failed: " + out.stderr[-400:])
        self.raw = json.loads(out.stdout)["files"]
        self.fns = {}      # (file, name) -> fn json   (free functions only)
        self.byname = {}   # name -> [(file, fn)]
        self.methods = {}  # (file, self_ty, name) -> fn json
        self.items = {}
        for f, v in self.raw.items():
            self.items[f] = v["items"]
            for it in v["items"]:
                if "name" in it and "body" in it:
                    if it.get("self_ty") is None and not it.get("trait_default"):
                        self.fns[(f, it["name"])] = it
                        self.byname.setdefault(it["name"], []).append((f, it))
                    else:
                        key = (f, (it.get("self_ty") or it.get("trait") or "").replace(" ", ""), it["name"])
                        self.methods.setdefault(key, []).append(it)

    def fn_hash(self, fn):
        return hashlib.sha256(json.dumps(fn["body"], sort_keys=True).encode()).hexdigest()[:12]

    def resolve(self, segs, cur_file):
        """resolve a path to a repo function: (file, fn) or None"""
        name = segs[-1]
        cands = self.byname.get(name, [])
        if not cands:
            return None
        if len(segs) >= 2:
            mod = segs[-2]
            for f, fn in cands:
                base = os.path.basename(f)[:-3]
                if base == mod or (base == "lib" and mod in f) or (base == "mod" and mod in f):
                    return (f, fn)
            # e.g. xml_nom::ncname
            for f, fn in cands:
                if mod.replace("xml_", "") in f:
                    return (f, fn)
            return None
        for f, fn in cands:
            if f == cur_file:
                return (f, fn)
        # names imported with `use xml_nom::{..}`: only the nom crate's lib is searched
        for f, fn in cands:
            if f.endswith("nom/src/lib.rs"):
                return (f, fn)
        return None


# ------------------------------------------------------------------------------------------------
# IR


class Node:
    _next = 0

    def __init__(self, kind, kids=(), arg=None, src=None):
        self.kind = kind
        self.kids = list(kids)
        self.arg = arg
        self.src = src
        self.id = Node._next
        self.site = None     # stable path inside the enclosing production, set by Grammar
        self.roles = None    # for seq: which kids carry the output
        Node._next += 1

    def __repr__(self):
        if self.kind in ("tag", "char", "ref"):
            return "%s(%r)" % (self.kind, self.arg)
        return "%s[%s]" % (self.kind, ",".join(map(repr, self.kids)))


NOM_SEQ = {"tuple", "delimited", "preceded", "terminated", "pair", "separated_pair"}
NOM_BUILTIN_CLASS = {
    # name: (ranges, at_least_one)
    "digit0": ([(0x30, 0x39)], False),
    "digit1": ([(0x30, 0x39)], True),
    "hex_digit0": ([(0x30, 0x39), (0x41, 0x46), (0x61, 0x66)], False),
    "hex_digit1": ([(0x30, 0x39), (0x41, 0x46), (0x61, 0x66)], True),
    "alpha0": ([(0x41, 0x5A), (0x61, 0x7A)], False),
    "alpha1": ([(0x41, 0x5A), (0x61, 0x7A)], True),
    "alphanumeric1": ([(0x30, 0x39), (0x41, 0x5A), (0x61, 0x7A)], True),
    "alphanumeric0": ([(0x30, 0x39), (0x41, 0x5A), (0x61, 0x7A)], False),
    "multispace0": ([(0x20, 0x20), (0x09, 0x09), (0x0D, 0x0D), (0x0A, 0x0A)], False),
    "multispace1": ([(0x20, 0x20), (0x09, 0x09), (0x0D, 0x0D), (0x0A, 0x0A)], True),
    "space0": ([(0x20, 0x20), (0x09, 0x09)], False),
    "space1": ([(0x20, 0x20), (0x09, 0x09)], True),
}
ASCII_METHODS = {
    "is_ascii_uppercase": [(0x41, 0x5A)],
    "is_ascii_lowercase": [(0x61, 0x7A)],
    "is_ascii_digit": [(0x30, 0x39)],
    "is_ascii_alphabetic": [(0x41, 0x5A), (0x61, 0x7A)],
    "is_ascii_alphanumeric": [(0x30, 0x39), (0x41, 0x5A), (0x61, 0x7A)],
    "is_ascii_hexdigit": [(0x30, 0x39), (0x41, 0x46), (0x61, 0x66)],
    "is_ascii_whitespace": [(0x20, 0x20), (0x09, 0x09), (0x0A, 0x0A), (0x0C, 0x0D)],
    "is_ascii": [(0, 0x7F)],
    "is_ascii_punctuation": [(0x21, 0x2F), (0x3A, 0x40), (0x5B, 0x60), (0x7B, 0x7E)],
}


class Pred:
    """character predicate = (closure/fn expression, environment); evaluated on demand"""

    def __init__(self, grammar, expr, env, cur_file, negate=False):
        self.g = grammar
        self.expr = expr
        self.env = env
        self.cur_file = cur_file
        self.negate = negate
        self._cache = {}

    def __call__(self, c):
        key = c if isinstance(c, int) else c.get_id()
        if key in self._cache:
            return self._cache[key]
        v = self.g.eval_closure_pred(self.expr, self.env, self.cur_file, c)
        if self.negate:
            v = Not(v)
        self._cache[key] = v
        return v


class RangesPred:
    def __init__(self, ranges):
        self.ranges = ranges

    def __call__(self, c):
        return sym.cin_ranges(c, self.ranges)


def pname(p):
    """parameter name of a dumped fn parameter"""
    pat = p.get("pat")
    if pat is not None:
        if pat["k"] == "ident":
            return pat["name"]
        if pat["k"] == "typed" and pat["pat"]["k"] == "ident":
            return pat["pat"]["name"]
    return p["name"]


class Grammar:
    def __init__(self, dump):
        self.dump = dump
        self.prods = {}      # (file, name, envkey) -> Node
        self.used_fns = {}   # (file, name) -> hash
        self.cur = None

    # ---- translation ----------------------------------------------------------------------

    def production(self, name, file=None):
        r = self.dump.resolve([name], file) if file is None or (file, name) not in self.dump.fns else (file, self.dump.fns[(file, name)])
        if r is None:
            raise Unsupported("no function %s" % name)
        return self.prod_node(r[0], r[1], {})

    def prod_node(self, file, fn, env):
        """a *site* node referring to a production; sites are distinct nodes, the production body is shared"""
        envkey = tuple(sorted((k, v) for k, v in env.items() if isinstance(v, str)))
        key = (file, fn["name"], envkey)
        if key not in self.prods:
            self.prods[key] = {"key": key, "file": file, "fn": fn, "env": env, "body": None}
            self.used_fns[(file, fn["name"])] = self.dump.fn_hash(fn)
        ref = Node("ref", arg=key, src="%s:%d" % (file, fn["line"]))
        return ref

    def body_of(self, ref):
        rec = self.prods[ref.arg]
        if rec["body"] is None:
            file, fn, env = rec["file"], rec["fn"], rec["env"]
            params = fn["params"]
            body = fn["body"]
            inp = pname(params[0]) if params else None
            rec["body"] = "pending"
            node = self.tr_fn_body(body, file, env, inp, fn)
            rec["body"] = node
            self._assign_sites(node, fn["name"])
        if rec["body"] == "pending":
            raise Unsupported("recursive translation of %s" % (ref.arg[1],))
        return rec["body"]

    def _assign_sites(self, node, prefix):
        node.site = prefix
        if node.kind == "ref":
            return
        for k, kid in enumerate(node.kids):
            if kid.site is None:
                self._assign_sites(kid, "%s.%d" % (prefix, k))

    def tr_fn_body(self, body, file, env, inp, fn):
        stmts = body["stmts"]
        if len(stmts) == 1 and stmts[0]["k"] == "expr":
            return self.tr_apply(stmts[0]["e"], file, env, inp)
        # helper-style body with lets handled in tr_apply of block
        return self.tr_apply(body, file, env, inp)

    def tr_apply(self, e, file, env, inp):
        """e is an expression that applies a parser to the input variable `inp`"""
        k = e["k"]
        if k == "call":
            args = e["args"]
            # P(input)
            if len(args) == 1 and args[0]["k"] == "path" and args[0]["segs"] == [inp]:
                return self.tr_parser(e["func"], file, env)
            # f(input, extra...) : a repo fn taking the input first
            if args and args[0]["k"] == "path" and args[0]["segs"] == [inp] and e["func"]["k"] == "path":
                r = self.dump.resolve(e["func"]["segs"], file)
                if r is None:
                    raise Unsupported("unknown fn %s" % e["func"]["segs"])
                f2, fn2 = r
                env2 = {}
                for p, a in zip(fn2["params"][1:], args[1:]):
                    env2[pname(p)] = self.const_val(a, env)
                return self.prod_node(f2, fn2, env2)
            raise Unsupported("application shape at line %s" % e.get("line"))
        if k == "mcall" and e["recv"]["k"] == "path" and e["recv"]["segs"] == [inp]:
            m = e["method"]
            if m in ("split_at_position_complete", "split_at_position1_complete"):
                pred = Pred(self, e["args"][0], dict(env), file, negate=True)
                n = Node("class1" if m.endswith("1_complete") else "class0", arg=pred, src="%s:%s" % (file, e.get("line")))
                return n
            raise Unsupported("method %s on input" % m)
        if k == "block":
            return self.tr_helper_block(e, file, env, inp)
        raise Unsupported("application kind %s" % k)

    def const_val(self, a, env):
        if a["k"] == "lit" and a["t"] == "str":
            return a["v"]
        if a["k"] == "lit" and a["t"] == "char":
            return chr(a["v"])
        if a["k"] == "path" and len(a["segs"]) == 1 and a["segs"][0] in env:
            return env[a["segs"][0]]
        if a["k"] == "path":
            return ("path", tuple(a["segs"]))
        if a["k"] == "ref":
            return self.const_val(a["e"], env)
        return ("expr", json.dumps(a, sort_keys=True))

    def tr_parser(self, e, file, env):
        """e is an expression whose value is a parser (something callable on the input)"""
        k = e["k"]
        src = "%s:%s" % (file, e.get("line"))
        if k == "path":
            segs = e["segs"]
            name = segs[-1]
            if len(segs) == 1 and name in env and isinstance(env[name], Node):
                return env[name]
            r = self.dump.resolve(segs, file)
            if r is not None:
                return self.prod_node(r[0], r[1], {})
            if name in NOM_BUILTIN_CLASS:
                rng, one = NOM_BUILTIN_CLASS[name]
                return Node("class1" if one else "class0", arg=RangesPred(rng), src=src)
            raise Unsupported("unknown parser path %s" % "::".join(segs))
        if k == "closure":
            params = e["params"]
            if len(params) != 1:
                raise Unsupported("closure arity")
            pn = params[0]["pat"]["name"] if params[0]["k"] == "typed" else params[0]["name"]
            return self.tr_apply(e["body"], file, env, pn)
        if k != "call":
            raise Unsupported("parser expr kind %s" % k)
        func = e["func"]
        args = e["args"]
        if func["k"] != "path":
            raise Unsupported("parser call on non-path")
        segs = func["segs"]
        name = segs[-1]
        # repo function returning a parser (xmlchar::char_except1, helper::take_until, ...)
        r = self.dump.resolve(segs, file)
        if r is not None:
            f2, fn2 = r
            return self.tr_parser_factory(f2, fn2, args, file, env)
        if name == "tag":
            return Node("tag", arg=self._str(args[0], env), src=src)
        if name == "tag_no_case":
            return Node("tag_nc", arg=self._str(args[0], env), src=src)
        if name == "char":
            return Node("tag", arg=self._str(args[0], env), src=src)
        if name in NOM_SEQ:
            if name == "tuple":
                if args[0]["k"] != "tuple":
                    raise Unsupported("tuple arg")
                kids = [self.tr_parser(a, file, env) for a in args[0]["elems"]]
                n = Node("seq", kids, src=src)
                n.roles = list(range(len(kids)))
            else:
                kids = [self.tr_parser(a, file, env) for a in args]
                n = Node("seq", kids, src=src)
                n.roles = {"delimited": [1], "preceded": [1], "terminated": [0], "pair": [0, 1], "separated_pair": [0, 2]}[name]
            n.arg = name
            return n
        if name == "alt":
            if args[0]["k"] != "tuple":
                raise Unsupported("alt arg")
            return Node("alt", [self.tr_parser(a, file, env) for a in args[0]["elems"]], src=src)
        if name == "opt":
            return Node("opt", [self.tr_parser(args[0], file, env)], src=src)
        if name in ("many0", "many1"):
            return Node(name, [self.tr_parser(args[0], file, env)], src=src)
        if name in ("separated_list0", "separated_list1"):
            return Node(name, [self.tr_parser(args[0], file, env), self.tr_parser(args[1], file, env)], src=src)
        if name == "recognize":
            return Node("recognize", [self.tr_parser(args[0], file, env)], src=src)
        if name in ("map", "value", "map_res_ok"):
            n = Node("map", [self.tr_parser(args[0], file, env)], arg=args[1] if len(args) > 1 else None, src=src)
            return n
        if name == "satisfy":
            return Node("one", arg=Pred(self, args[0], dict(env), file), src=src)
        if name in ("one_of", "none_of"):
            lit = self._str(args[0], env)
            return Node("one", arg=(lambda c, lit=lit, neg=(name == "none_of"): Not(sym.c_in_str(c, lit)) if neg else sym.c_in_str(c, lit)), src=src)
        if name == "anychar":
            return Node("one", arg=(lambda c: True), src=src)
        if name in ("take_till", "take_till1"):
            pred = Pred(self, args[0], dict(env), file, negate=True)
            return Node("class1" if name.endswith("1") else "class0", arg=pred, src=src)
        if name in ("take_while", "take_while1"):
            pred = Pred(self, args[0], dict(env), file)
            return Node("class1" if name.endswith("1") else "class0", arg=pred, src=src)
        if name in ("not", "peek", "cut", "all_consuming", "eof", "verify", "map_res", "map_opt"):
            kids = [self.tr_parser(a, file, env) for a in args[:1]] if args else []
            if name in ("peek", "not", "eof", "all_consuming"):
                return Node(name, kids, src=src)
            if name == "cut":
                raise Unsupported("cut (failure propagation) not modelled")
            if name == "verify":
                return Node("verify", kids, arg=(args[1], dict(env), file), src=src)
            raise Unsupported("combinator %s" % name)
        raise Unsupported("unknown combinator %s" % "::".join(segs))

    def _str(self, a, env):
        v = self.const_val(a, env)
        if not isinstance(v, str):
            raise Unsupported("non-literal string argument")
        return v

    def tr_parser_factory(self, f2, fn2, args, file, env):
        """call of a repo fn that returns a parser closure, or of a plain production with extra args"""
        params = fn2["params"]
        env2 = {}
        for p, a in zip(params, args):
            if a["k"] in ("call", "closure") or (a["k"] == "path" and self._is_parser_path(a, file, env)):
                env2[pname(p)] = self.tr_parser(a, file, env)
            else:
                env2[pname(p)] = self.const_val(a, env)
        self.used_fns[(f2, fn2["name"])] = self.dump.fn_hash(fn2)
        stmts = fn2["body"]["stmts"]
        if len(stmts) == 1 and stmts[0]["k"] == "expr" and stmts[0]["e"]["k"] == "closure":
            clo = stmts[0]["e"]
            p0 = clo["params"][0]
            pn = p0["pat"]["name"] if p0["k"] == "typed" else p0["name"]
            node = self.tr_apply(clo["body"], f2, env2, pn)
            wrapper = Node("map", [node], arg=None, src="%s:%d" % (f2, fn2["line"]))
            wrapper.factory = fn2["name"]
            self._assign_sites(wrapper, fn2["name"])
            return wrapper
        raise Unsupported("factory body shape of %s" % fn2["name"])

    def _is_parser_path(self, a, file, env):
        segs = a["segs"]
        if len(segs) == 1 and segs[0] in env:
            return isinstance(env[segs[0]], Node)
        if self.dump.resolve(segs, file) is not None:
            return True
        return segs[-1] in NOM_BUILTIN_CLASS

    # ---- static location of the parser whose output an accessor path denotes ----------------

    def locate(self, node, steps):
        """node: a parser node; steps: [('field', name) | ('index', k)] applied to its output"""
        while True:
            if node.kind == "ref":
                if not steps:
                    b = self.body_of(node)
                    # a production that merely passes another parser's output through
                    if (b.kind == "seq" and len(b.roles) == 1) or b.kind == "ref" or (b.kind == "map" and b.arg is None):
                        node = b
                        continue
                    return node
                node = self.body_of(node)
            elif node.kind == "recognize":
                if steps:
                    raise Unsupported("locate: steps into recognize")
                return node
            elif node.kind == "map":
                f = node.arg
                if f is None:
                    node = node.kids[0]
                    continue
                if not steps:
                    raise Unsupported("locate: whole mapped value")
                st = steps[0]
                if st[0] == "field" and f["k"] == "path" and f["segs"][-1] == "from":
                    k = self.from_field_index(f["segs"][-2], st[1])
                    steps = ([("index", k)] if k is not None else []) + steps[1:]
                    node = node.kids[0]
                else:
                    raise Unsupported("locate: map function")
            elif node.kind == "seq":
                if len(node.roles) == 1:
                    node = node.kids[node.roles[0]]
                else:
                    if not steps or steps[0][0] != "index":
                        raise Unsupported("locate: tuple output needs an index")
                    node = node.kids[node.roles[steps[0][1]]]
                    steps = steps[1:]
            else:
                if steps:
                    raise Unsupported("locate: steps into %s" % node.kind)
                return node

    def from_fields(self, ty):
        """field names of `ty` in the order of the tuple its From impl takes, or None"""
        for (f, self_ty, name), fns in self.dump.methods.items():
            if name != "from" or not self_ty.startswith(ty):
                continue
            for fn in fns:
                stmts = fn["body"]["stmts"]
                arg = pname(fn["params"][0])
                names, lit = None, None
                for st in stmts:
                    if st["k"] == "let" and st["pat"]["k"] == "tuple" and st["init"] and st["init"].get("segs") == [arg]:
                        names = [el.get("name") for el in st["pat"]["elems"]]
                    elif st["k"] == "expr" and st["e"]["k"] == "struct":
                        lit = st["e"]
                if names and lit:
                    by = {}
                    for fl in lit["fields"]:
                        e = fl["e"]
                        if e["k"] == "path" and len(e["segs"]) == 1 and e["segs"][0] in names:
                            by[e["segs"][0]] = fl["member"]
                    if len(by) == len(names):
                        self.used_fns[(f, "%s::from" % ty)] = self.dump.fn_hash(fn)
                        return [by[nm] for nm in names]
        return None

    def is_text_output(self, node):
        """the parser's output is exactly the text it consumed"""
        while node.kind == "map" and node.arg is None:
            node = node.kids[0]
        if node.kind in ("recognize", "class0", "class1", "tag", "take_until", "take_except"):
            return True
        if node.kind == "ref":
            return self.is_text_output(self.body_of(node))
        return False

    def from_field_index(self, ty, field):
        """impl From<(A, B, ..)> for ty { fn from(value) { let (a, b, ..) = value; ty { a, b, .. } } }:
        which tuple position initialises `field` (None when the argument is not a tuple and is the field itself)"""
        for (f, self_ty, name), fns in self.dump.methods.items():
            if name != "from" or not self_ty.startswith(ty):
                continue
            for fn in fns:
                stmts = fn["body"]["stmts"]
                names = None
                arg = pname(fn["params"][0])
                lit = None
                for st in stmts:
                    if st["k"] == "let" and st["pat"]["k"] == "tuple" and st["init"] and st["init"].get("segs") == [arg]:
                        names = [el.get("name") for el in st["pat"]["elems"]]
                    elif st["k"] == "expr" and st["e"]["k"] == "struct":
                        lit = st["e"]
                if lit is None:
                    continue
                for fl in lit["fields"]:
                    if fl["member"] == field:
                        e = fl["e"]
                        if e["k"] == "path" and len(e["segs"]) == 1:
                            if names and e["segs"][0] in names:
                                self.used_fns[(f, "%s::from" % ty)] = self.dump.fn_hash(fn)
                                return names.index(e["segs"][0])
                            if e["segs"][0] == arg:
                                return None
                        raise Unsupported("from_field_index: field initialiser")
        raise Unsupported("no From impl found for %s.%s" % (ty, field))

    # ---- the two generic helpers of nom/src/helper.rs, recognised structurally -------------

    def tr_helper_block(self, blk, file, env, inp):
        """{ let i = input.clone(); let e = except.clone(); match parser.parse(i) { Ok((rest,value)) => match <test> {..}, Err(e) => Err(e) } }"""
        alias = {}
        main = None
        for st in blk["stmts"]:
            if st["k"] == "let" and st["pat"]["k"] == "ident" and st["init"] is not None:
                init = st["init"]
                if init["k"] == "mcall" and init["method"] == "clone" and init["recv"]["k"] == "path":
                    alias[st["pat"]["name"]] = init["recv"]["segs"][0]
                    continue
                raise Unsupported("helper let")
            elif st["k"] == "expr":
                main = st["e"]
            else:
                raise Unsupported("helper stmt")

        def base(name):
            while name in alias:
                name = alias[name]
            return name

        if main is None or main["k"] != "match":
            raise Unsupported("helper: no match")
        scrut = main["expr"]
        if not (scrut["k"] == "mcall" and scrut["method"] == "parse" and scrut["recv"]["k"] == "path"):
            raise Unsupported("helper: scrutinee")
        pvar = base(scrut["recv"]["segs"][0])
        if not (scrut["args"][0]["k"] == "path" and base(scrut["args"][0]["segs"][0]) == inp):
            raise Unsupported("helper: parse arg")
        inner = env.get(pvar)
        if not isinstance(inner, Node):
            raise Unsupported("helper: parser param")
        ok_arm = err_arm = None
        for arm in main["arms"]:
            p = arm["pat"]
            if p["k"] == "tuplestruct" and p["path"]["segs"][-1] == "Ok":
                ok_arm = arm
            elif p["k"] == "tuplestruct" and p["path"]["segs"][-1] == "Err":
                err_arm = arm
        if ok_arm is None or err_arm is None or len(main["arms"]) != 2:
            raise Unsupported("helper: arms")
        # Err(e) => Err(e)
        eb = err_arm["body"]
        if not (eb["k"] == "call" and eb["func"]["k"] == "path" and eb["func"]["segs"][-1] == "Err"):
            raise Unsupported("helper: err arm")
        tp = ok_arm["pat"]["elems"][0]
        if tp["k"] != "tuple" or len(tp["elems"]) != 2:
            raise Unsupported("helper: ok pattern")
        rest_v, value_v = tp["elems"][0]["name"], tp["elems"][1]["name"]
        body = ok_arm["body"]
        if body["k"] != "match":
            raise Unsupported("helper: ok arm body")
        test = body["expr"]
        if test["k"] != "mcall":
            raise Unsupported("helper: test")

        def is_ok_rest_value(x):
            return (x["k"] == "call" and x["func"]["k"] == "path" and x["func"]["segs"][-1] == "Ok"
                    and x["args"][0]["k"] == "tuple" and len(x["args"][0]["elems"]) == 2
                    and x["args"][0]["elems"][0].get("segs") == [rest_v]
                    and x["args"][0]["elems"][1].get("segs") == [value_v])

        def is_err(x):
            return x["k"] == "call" and x["func"]["k"] == "path" and x["func"]["segs"][-1] == "Err"

        if test["method"] in ("compare", "compare_no_case"):
            # <except>.compare[_no_case](value.clone())
            if not (test["recv"]["k"] == "path" and isinstance(env.get(base(test["recv"]["segs"][0])), str)):
                raise Unsupported("helper: compare receiver")
            word = env[base(test["recv"]["segs"][0])]
            a0 = test["args"][0]
            if a0["k"] == "mcall" and a0["method"] == "clone":
                a0 = a0["recv"]
            if a0.get("segs") != [value_v]:
                raise Unsupported("helper: compare arg")
            actions = []
            for arm in body["arms"]:
                p = arm["pat"]
                if p["k"] == "path":
                    variant = p["path"]["segs"][-1]
                elif p["k"] == "wild":
                    variant = "_"
                elif p["k"] == "tuplestruct":
                    variant = p["path"]["segs"][-1]
                else:
                    raise Unsupported("helper: compare arm pattern")
                guard = None
                if arm["guard"] is not None:
                    gd = arm["guard"]
                    # <except>.input_len() == value.input_len()
                    def is_len(x, who):
                        return (x["k"] == "mcall" and x["method"] in ("input_len", "len") and x["recv"]["k"] == "path"
                                and ((who == "value" and x["recv"]["segs"] == [value_v])
                                     or (who == "word" and isinstance(env.get(base(x["recv"]["segs"][0])), str))))
                    if gd["k"] == "binary" and gd["op"] in ("==", "!=") and (
                            (is_len(gd["l"], "word") and is_len(gd["r"], "value")) or (is_len(gd["l"], "value") and is_len(gd["r"], "word"))):
                        guard = "len_eq" if gd["op"] == "==" else "len_ne"
                    else:
                        raise Unsupported("helper: arm guard")
                if is_err(arm["body"]):
                    actions.append((variant, "err", guard))
                elif is_ok_rest_value(arm["body"]):
                    actions.append((variant, "ok", guard))
                else:
                    raise Unsupported("helper: compare arm body")
            n = Node("take_except", [inner], arg=(word, test["method"], actions), src="%s:%s" % (file, main.get("line")))
            return n
        if test["method"] == "find_substring":
            if test["recv"].get("segs") != [value_v]:
                raise Unsupported("helper: find_substring receiver")
            word = env.get(base(test["args"][0]["segs"][0]))
            if not isinstance(word, str):
                raise Unsupported("helper: find_substring arg")
            some_arm = none_arm = None
            for arm in body["arms"]:
                p = arm["pat"]
                if p["k"] == "tuplestruct" and p["path"]["segs"][-1] == "Some":
                    some_arm = arm
                elif (p["k"] == "path" and p["path"]["segs"][-1] == "None") or (p["k"] == "ident" and p["name"] == "None") or p["k"] == "wild":
                    none_arm = arm
            if some_arm is None or none_arm is None or len(body["arms"]) != 2:
                raise Unsupported("helper: find arms")
            if not is_ok_rest_value(none_arm["body"]):
                raise Unsupported("helper: none arm")
            idx = some_arm["pat"]["elems"][0]["name"]
            sb = some_arm["body"]
            if not (sb["k"] == "call" and sb["func"]["segs"][-1] == "Ok" and sb["args"][0]["k"] == "tuple"):
                raise Unsupported("helper: some arm")
            r_e, v_e = sb["args"][0]["elems"]

            def slice_of(x, want_from):
                # input.slice(index..) / input.slice(..index), index possibly +- literal
                if not (x["k"] == "mcall" and x["method"] == "slice" and base(x["recv"]["segs"][0]) == inp):
                    raise Unsupported("helper: slice")
                rg = x["args"][0]
                if rg["k"] != "range" or rg["inclusive"]:
                    raise Unsupported("helper: slice range")
                bound = rg["start"] if want_from else rg["end"]
                other = rg["end"] if want_from else rg["start"]
                if bound is None or other is not None:
                    raise Unsupported("helper: slice bounds")
                return self._index_delta(bound, idx)

            d_rest = slice_of(r_e, True)
            d_val = slice_of(v_e, False)
            if d_rest != d_val:
                raise Unsupported("helper: rest/value split differ")
            n = Node("take_until", [inner], arg=(word, d_rest), src="%s:%s" % (file, main.get("line")))
            return n
        raise Unsupported("helper: test method %s" % test["method"])

    def _index_delta(self, e, idx):
        if e["k"] == "path" and e["segs"] == [idx]:
            return 0
        if e["k"] == "binary" and e["l"].get("segs") == [idx] and e["r"]["k"] == "lit" and e["r"]["t"] == "int":
            v = int(e["r"]["v"])
            if e["op"] == "+":
                return v
            if e["op"] == "-":
                return -v
        raise Unsupported("helper: index expression")

    # ---- character predicates ---------------------------------------------------------------

    def eval_closure_pred(self, e, env, file, c):
        if e["k"] == "closure":
            p0 = e["params"][0]
            pn = p0["pat"]["name"] if p0["k"] == "typed" else p0["name"]
            env2 = dict(env)
            env2[pn] = ("char", c)
            return self.pv(e["body"], env2, file)
        if e["k"] == "path":
            r = self.dump.resolve(e["segs"], file)
            if r is None:
                raise Unsupported("pred path %s" % e["segs"])
            f2, fn2 = r
            self.used_fns[(f2, fn2["name"])] = self.dump.fn_hash(fn2)
            return self.pv_fn(f2, fn2, [("char", c)])
        raise Unsupported("pred expr kind %s" % e["k"])

    def pv_fn(self, file, fn, argv):
        env = {}
        for p, a in zip(fn["params"], argv):
            env[pname(p)] = a
        stmts = fn["body"]["stmts"]
        if len(stmts) != 1 or stmts[0]["k"] != "expr":
            raise Unsupported("pred fn body %s" % fn["name"])
        self.used_fns[(file, fn["name"])] = self.dump.fn_hash(fn)
        return self.pv(stmts[0]["e"], env, file)

    def pv(self, e, env, file):
        """evaluate a predicate-language expression; returns bool-term, ('char', t) or str"""
        k = e["k"]
        if k == "lit":
            if e["t"] == "char":
                return ("char", e["v"])
            if e["t"] == "int":
                return ("char", int(e["v"]))
            if e["t"] == "str":
                return e["v"]
            if e["t"] == "bool":
                return bool(e["v"])
            raise Unsupported("pred literal")
        if k == "path":
            if len(e["segs"]) == 1 and e["segs"][0] in env:
                return env[e["segs"][0]]
            raise Unsupported("pred path %s" % e["segs"])
        if k == "unary":
            v = self.pv(e["e"], env, file)
            if e["op"] == "!":
                return Not(v)
            if e["op"] == "*":
                return v
            raise Unsupported("pred unary %s" % e["op"])
        if k == "ref":
            return self.pv(e["e"], env, file)
        if k == "cast":
            return self.pv(e["e"], env, file)
        if k == "block" and len(e["stmts"]) == 1 and e["stmts"][0]["k"] == "expr":
            return self.pv(e["stmts"][0]["e"], env, file)
        if k == "block":
            env2 = dict(env)
            for st in e["stmts"][:-1]:
                if st["k"] == "let" and st["pat"]["k"] == "ident":
                    env2[st["pat"]["name"]] = self.pv(st["init"], env2, file)
                else:
                    raise Unsupported("pred block stmt")
            return self.pv(e["stmts"][-1]["e"], env2, file)
        if k == "binary":
            op = e["op"]
            if op in ("||", "&&"):
                a = self.pv(e["l"], env, file)
                b = self.pv(e["r"], env, file)
                return Or(a, b) if op == "||" else And(a, b)
            a = self.pv(e["l"], env, file)
            b = self.pv(e["r"], env, file)
            if not (isinstance(a, tuple) and isinstance(b, tuple)):
                raise Unsupported("pred comparison operands")
            x, y = a[1], b[1]
            if op == "==":
                return sym.ceq(x, y)
            if op == "!=":
                return Not(sym.ceq(x, y))
            if isinstance(y, int):
                if op == "<=":
                    return sym.cin(x, 0, y)
                if op == "<":
                    return sym.cin(x, 0, y - 1) if y > 0 else False
                if op == ">=":
                    return sym.cin(x, y, 0x1FFFFF)
                if op == ">":
                    return sym.cin(x, y + 1, 0x1FFFFF)
            if isinstance(x, int):
                flip = {"<=": ">=", "<": ">", ">=": "<=", ">": "<"}
                if op in flip:
                    return self.pv({"k": "binary", "op": flip[op], "l": e["r"], "r": e["l"]}, env, file)
            raise Unsupported("pred binary %s" % op)
        if k == "mcall":
            m = e["method"]
            recv = self.pv(e["recv"], env, file)
            if m in ("as_char", "clone", "to_owned"):
                return recv
            if m in ASCII_METHODS:
                return sym.cin_ranges(recv[1], ASCII_METHODS[m])
            if m == "contains":
                arg = self.pv(e["args"][0], env, file)
                if isinstance(recv, str) and isinstance(arg, tuple):
                    return sym.c_in_str(arg[1], recv)
                raise Unsupported("pred contains")
            if m == "is_whitespace":
                raise Unsupported("char::is_whitespace (Unicode table) not modelled")
            raise Unsupported("pred method %s" % m)
        if k == "call":
            if e["func"]["k"] != "path":
                raise Unsupported("pred call")
            r = self.dump.resolve(e["func"]["segs"], file)
            if r is None:
                raise Unsupported("pred call to %s" % e["func"]["segs"])
            f2, fn2 = r
            argv = [self.pv(a, env, file) for a in e["args"]]
            return self.pv_fn(f2, fn2, argv)
        if k == "macro" and e["name"] == "matches" and "matches" in e:
            m = e["matches"]
            v = self.pv(m["expr"], env, file)
            if m["guard"] is not None:
                raise Unsupported("matches guard")
            return self.pat_match(m["pat"], v[1])
        raise Unsupported("pred expr kind %s" % k)

    def pat_match(self, p, c):
        k = p["k"]
        if k == "or":
            return Or(*[self.pat_match(x, c) for x in p["cases"]])
        if k == "lit":
            l = p["lit"]
            return sym.ceq(c, int(l["v"]) if l["t"] == "int" else l["v"])
        if k == "range":
            lo = self._litval(p["start"]) if p["start"] else 0
            hi = self._litval(p["end"]) if p["end"] else 0x1FFFFF
            if not p["inclusive"]:
                hi -= 1
            if hi < lo:
                return False
            return sym.cin(c, lo, hi)
        if k == "wild":
            return True
        raise Unsupported("pattern kind %s" % k)

    def _litval(self, e):
        if e["k"] == "lit" and e["t"] == "int":
            return int(e["v"])
        if e["k"] == "lit" and e["t"] == "char":
            return e["v"]
        raise Unsupported("range bound")


# ------------------------------------------------------------------------------------------------
# evaluation


class Run:
    """one evaluation of a grammar over one Input (symbolic or concrete)"""

    def __init__(self, grammar, inp):
        self.g = grammar
        self.inp = inp
        self.L = inp.L
        self.memo = {}
        self.active = set()
        self.calls = 0

    def ends(self, node, i):
        key = (node.arg, i) if node.kind == "ref" else (node.id, i)
        r = self.memo.get(key)
        if r is not None:
            return r
        if node.kind == "ref":
            if key in self.active:
                raise Unsupported("left recursion through %s at %d" % (node.arg[1], i))
            self.active.add(key)
            try:
                r = self.ends(self.g.body_of(node), i)
            finally:
                self.active.discard(key)
        else:
            r = getattr(self, "k_" + node.kind)(node, i)
        self.memo[key] = r
        self.calls += 1
        return r

    # leaf parsers

    def k_tag(self, n, i):
        s = n.arg
        out = Ends()
        if i + len(s) > self.L:
            return out
        out.add(i + len(s), And(*[sym.ceq(self.inp[i + k], ord(ch)) for k, ch in enumerate(s)]))
        return out

    def k_tag_nc(self, n, i):
        s = n.arg
        out = Ends()
        if i + len(s) > self.L:
            return out
        conds = []
        for k, ch in enumerate(s):
            if not ch.isascii():
                raise Unsupported("tag_no_case non-ascii")
            alts = {ord(ch.lower()), ord(ch.upper())}
            conds.append(Or(*[sym.ceq(self.inp[i + k], a) for a in alts]))
        out.add(i + len(s), And(*conds))
        return out

    def _class(self, pred, i, at_least_one):
        out = Ends()
        run = True
        for j in range(i, self.L + 1):
            if j == self.L:
                stop = True
            else:
                p = pred(self.inp[j])
                stop = Not(p)
            if not (at_least_one and j == i):
                out.add(j, And(run, stop))
            if j < self.L:
                run = And(run, p)
                if run is False:
                    break
        return out

    def k_class0(self, n, i):
        return self._class(n.arg, i, False)

    def k_class1(self, n, i):
        return self._class(n.arg, i, True)

    # combinators

    def k_seq(self, n, i):
        cur = Ends({i: True})
        for kid in n.kids:
            nxt = Ends()
            for j, cj in cur.items():
                for k, ck in self.ends(kid, j).items():
                    nxt.add(k, And(cj, ck))
            cur = nxt
            if not cur:
                break
        return cur

    def k_alt(self, n, i):
        out = Ends()
        none_before = True
        for kid in n.kids:
            r = self.ends(kid, i)
            for j, c in r.items():
                out.add(j, And(none_before, c))
            none_before = And(none_before, Not(r.ok()))
            if none_before is False:
                break
        return out

    def k_opt(self, n, i):
        r = self.ends(n.kids[0], i)
        out = Ends(r)
        out.add(i, Not(r.ok()))
        return out

    def k_recognize(self, n, i):
        return self.ends(n.kids[0], i)

    def k_map(self, n, i):
        return self.ends(n.kids[0], i)

    def k_peek(self, n, i):
        out = Ends()
        out.add(i, self.ends(n.kids[0], i).ok())
        return out

    def k_not(self, n, i):
        out = Ends()
        out.add(i, Not(self.ends(n.kids[0], i).ok()))
        return out

    def k_eof(self, n, i):
        out = Ends()
        if i == self.L:
            out.add(i, True)
        return out

    def k_all_consuming(self, n, i):
        r = self.ends(n.kids[0], i)
        out = Ends()
        if self.L in r:
            out.add(self.L, r[self.L])
        return out

    def _many(self, kid, i, first_required, first_progress_check):
        """nom many0/many1: returns Ends. heads[j] = condition that the loop is about to run kid at j."""
        out = Ends()
        heads = {i: True}
        j = i
        first = True
        while j <= self.L:
            h = heads.pop(j, False)
            if h is not False:
                r = self.ends(kid, j)
                ok = r.ok()
                if j == i and first_required:
                    pass  # failure of the first application fails the whole parser
                else:
                    out.add(j, And(h, Not(ok)))
                for k, ck in r.items():
                    if k == j:
                        if j == i and first_required and not first_progress_check:
                            # many1: the first application is not checked for progress; the loop then
                            # re-runs kid at the same position, which succeeds again without progress -> Err
                            continue
                        continue  # no progress -> Err(Many0/Many1): contributes no end
                    heads[k] = Or(heads.get(k, False), And(h, ck))
            j += 1
        return out

    def k_many0(self, n, i):
        return self._many(n.kids[0], i, False, True)

    def k_many1(self, n, i):
        return self._many(n.kids[0], i, True, False)

    def _seplist(self, n, i, at_least_one):
        sep, f = n.kids
        out = Ends()
        r0 = self.ends(f, i)
        if not at_least_one:
            out.add(i, Not(r0.ok()))
        heads = {}
        for k, ck in r0.items():
            heads[k] = Or(heads.get(k, False), ck)
        # heads[j]: an element has just ended at j
        for j in range(i, self.L + 1):
            h = heads.pop(j, False)
            if h is False:
                continue
            rs = self.ends(sep, j)
            cont = False
            for k, cs in rs.items():
                if k == j:
                    # separator without progress -> Err(SeparatedList): no end contributed
                    cont = Or(cont, cs)
                    continue
                rf = self.ends(f, k)
                for m, cf in rf.items():
                    heads[m] = Or(heads.get(m, False), And(h, cs, cf))
                cont = Or(cont, And(cs, rf.ok()))
            # stop at j when the separator fails, or the element after it fails
            out.add(j, And(h, Not(cont)))
        return out

    def k_separated_list0(self, n, i):
        return self._seplist(n, i, False)

    def k_separated_list1(self, n, i):
        return self._seplist(n, i, True)

    def _match_at(self, p, word):
        if p + len(word) > self.L:
            return False
        return And(*[sym.ceq(self.inp[p + k], ord(ch)) for k, ch in enumerate(word)])

    def k_take_until(self, n, i):
        word, delta = n.arg
        r = self.ends(n.kids[0], i)
        out = Ends()
        for e, ce in r.items():
            none_before = True
            for k in range(0, e - i - len(word) + 1):
                occ = self._match_at(i + k, word)
                first = And(none_before, occ)
                cut = i + k + delta
                if first is not False:
                    if cut < i or cut > self.L:
                        raise Unsupported("take_until cut outside input")
                    out.add(cut, And(ce, first))
                none_before = And(none_before, Not(occ))
            out.add(e, And(ce, none_before))
        return out

    def _nocase_eq(self, c, ch):
        o = ord(ch)
        alts = {o}
        if ch.isascii() and ch.isalpha():
            alts = {ord(ch.lower()), ord(ch.upper())}
            if ch.lower() == "k":
                alts.add(0x212A)
            if ch.lower() == "s":
                alts.add(0x17F)
        elif not ch.isascii():
            raise Unsupported("compare_no_case with non-ascii word")
        return Or(*[sym.ceq(c, a) for a in alts])

    def k_take_except(self, n, i):
        word, method, actions = n.arg
        r = self.ends(n.kids[0], i)
        out = Ends()
        for e, ce in r.items():
            vlen = e - i
            # nom 7.1.3 Compare<&str> for &str: word.compare*(value)
            m = min(vlen, len(word))
            if method == "compare_no_case":
                prefix_eq = And(*[self._nocase_eq(self.inp[i + k], word[k]) for k in range(m)])
                # lengths are compared in bytes; equal-ignoring-case chars of an ASCII word are ASCII
                # except U+212A / U+017F which are 3 / 2 bytes long
                if vlen <= len(word):
                    res_ok = prefix_eq          # word.len() >= value.len()  (all matched chars ASCII-sized or longer)
                    res_incomplete = False
                    # a value containing U+212A/U+017F is longer in bytes; treat precisely:
                    if any(ch.lower() in "ks" for ch in word[:m]):
                        raise Unsupported("compare_no_case byte length with k/s")
                else:
                    res_ok = False
                    res_incomplete = prefix_eq
                res_error = Not(prefix_eq)
            else:
                # compare: bytes of word vs bytes of value: Ok if value starts with word; Incomplete if value is a
                # proper prefix of word; Error otherwise.   (word ASCII: chars = bytes on the matching path)
                prefix_eq = And(*[sym.ceq(self.inp[i + k], ord(word[k])) for k in range(m)])
                if vlen >= len(word):
                    res_ok = prefix_eq
                    res_incomplete = False
                else:
                    res_ok = False
                    res_incomplete = prefix_eq
                res_error = Not(prefix_eq)
            accept = False
            remaining = True
            for variant, act, guard in actions:
                if variant == "Ok":
                    c = res_ok
                elif variant == "Incomplete":
                    c = res_incomplete
                elif variant == "Error":
                    c = res_error
                elif variant == "_":
                    c = True
                else:
                    raise Unsupported("CompareResult variant %s" % variant)
                if guard is not None:
                    # byte lengths; on the Ok path every matched char is ASCII, so bytes = chars
                    if variant != "Ok":
                        raise Unsupported("length guard on a non-Ok arm")
                    c = And(c, (vlen == len(word)) == (guard == "len_eq"))
                here = And(remaining, c)
                if act == "ok":
                    accept = Or(accept, here)
                remaining = And(remaining, Not(c))
            out.add(e, And(ce, accept))
        return out

    def k_one(self, n, i):
        out = Ends()
        if i < self.L:
            out.add(i + 1, n.arg(self.inp[i]))
        return out

    # verify(tuple((..)), |(a, _, b)| a.field == *b): equality of two outputs of the same production is
    # equality of the texts they consumed (outputs are injective functions of the consumed text)

    def k_verify(self, n, i):
        from . import active
        kid = n.kids[0]
        clo, env, file = n.arg
        if clo["k"] != "closure" or len(clo["params"]) != 1:
            raise Unsupported("verify: closure shape")
        pat = clo["params"][0]
        if pat["k"] == "typed":
            pat = pat["pat"]
        if pat["k"] == "ref":
            pat = pat["pat"]
        seq = kid
        while seq.kind in ("map", "recognize"):
            seq = seq.kids[0]
        binds = {}
        if pat["k"] == "ident":
            body0 = clo["body"]
            while body0["k"] == "block" and len(body0["stmts"]) == 1 and body0["stmts"][0]["k"] == "expr":
                body0 = body0["stmts"][0]["e"]
            if body0["k"] == "call" and body0["func"]["k"] == "path" and len(body0["args"]) == 1 and body0["args"][0].get("segs") == [pat["name"]]:
                return self._verify_by_kernel(n, i, kid, body0["func"]["segs"], file)
            # verify(P, |v| !v.is_empty()): P must consume at least one character
            body = clo["body"]
            while body["k"] == "block" and len(body["stmts"]) == 1 and body["stmts"][0]["k"] == "expr":
                body = body["stmts"][0]["e"]
            neg = False
            if body["k"] == "unary" and body["op"] == "!":
                neg = True
                body = body["e"]
            if (body["k"] == "mcall" and body["method"] == "is_empty" and body["recv"].get("segs") == [pat["name"]]
                    and self.g.is_text_output(kid)):
                out = Ends()
                for e, ce in self.ends(kid, i).items():
                    if (e > i) == neg:
                        out.add(e, ce)
                return out
            raise Unsupported("verify: closure over a single value")
        if pat["k"] == "tuple":
            if seq.kind != "seq" or len(seq.roles) != len(pat["elems"]):
                raise Unsupported("verify: tuple pattern vs parser")
            for k, el in enumerate(pat["elems"]):
                if el["k"] == "ident":
                    binds[el["name"]] = seq.roles[k]
                elif el["k"] != "wild":
                    raise Unsupported("verify: pattern element")
        else:
            raise Unsupported("verify: non-tuple pattern")
        body = clo["body"]
        while body["k"] == "block" and len(body["stmts"]) == 1 and body["stmts"][0]["k"] == "expr":
            body = body["stmts"][0]["e"]
        if body["k"] != "binary" or body["op"] not in ("==", "!="):
            raise Unsupported("verify: body is not an (in)equality")

        def accessor(e):
            steps = []
            while True:
                if e["k"] in ("unary", "ref"):
                    e = e["e"]
                elif e["k"] == "field":
                    steps.insert(0, ("field", e["member"]))
                    e = e["base"]
                elif e["k"] == "mcall" and e["method"] in ("clone", "as_ref", "borrow") and not e["args"]:
                    e = e["recv"]
                elif e["k"] == "path" and len(e["segs"]) == 1 and e["segs"][0] in binds:
                    return binds[e["segs"][0]], steps
                else:
                    raise Unsupported("verify: accessor expression")

        kx, sx = accessor(body["l"])
        ky, sy = accessor(body["r"])
        tx = self.g.locate(seq.kids[kx], sx)
        ty = self.g.locate(seq.kids[ky], sy)
        if tx.kind != "ref" or ty.kind != "ref" or tx.arg != ty.arg:
            raise Unsupported("verify: the two sides are not outputs of the same production")
        # enumerate the start positions of the tuple members
        paths = [((), i, True)]
        for member in seq.kids:
            nxt = []
            for starts, j, c in paths:
                for e, ce in self.ends(member, j).items():
                    v = And(c, ce)
                    if v is not False:
                        nxt.append((starts + (j,), e, v))
            paths = nxt
        out = Ends()
        # anything the wrappers between verify's child and the tuple add (map/recognize) does not move positions
        for starts, e, c in paths:
            spx = self._spans(seq.kids[kx], starts[kx], tx)
            spy = self._spans(seq.kids[ky], starts[ky], ty)
            eq = False
            for (q1, e1, c1) in spx:
                for (q2, e2, c2) in spy:
                    if e1 - q1 != e2 - q2:
                        continue
                    same = And(c1, c2, *[sym.ceq(self.inp[q1 + d], self.inp[q2 + d]) for d in range(e1 - q1)])
                    eq = Or(eq, same)
            out.add(e, And(c, eq if body["op"] == "==" else Not(eq)))
        return out

    # verify(many0(P), |v| pred_fn(v)): the predicate is a repo function over the list of outputs. The iterations of
    # the many0 are enumerated with their concrete spans, each output is built as a value of the S-kernel (a struct whose
    # text-like fields hold the consumed characters) and the real function body is executed symbolically on that list.

    def _verify_by_kernel(self, n, i, kid, fn_segs, file):
        from . import kernel
        many = kid
        while many.kind in ("map", "recognize"):
            many = many.kids[0]
        if many.kind not in ("many0", "many1"):
            raise Unsupported("verify by function: the checked parser is not a repetition")
        r = self.g.dump.resolve(fn_segs, file)
        if r is None:
            raise Unsupported("verify by function: unknown function %s" % fn_segs)
        pfile, pfn = r
        self.g.used_fns[(pfile, pfn["name"])] = self.g.dump.fn_hash(pfn)
        elem = many.kids[0]
        out = Ends()
        # iteration sequences: (list of element values, position, condition)
        seqs = [([], i, True)]
        finished = []
        guard = 0
        while seqs:
            guard += 1
            if guard > 4000:
                raise Unsupported("verify by function: too many iteration sequences")
            vals, j, c = seqs.pop()
            r_el = self.ends(elem, j)
            stop = And(c, Not(Or(*[ce for e, ce in r_el.items() if e > j])))
            if many.kind == "many1" and not vals:
                stop = False
            if stop is not False:
                finished.append((vals, j, stop))
            for v, e, ce in self._out_paths(elem, j):
                if e > j:
                    cc = And(c, ce)
                    if cc is not False:
                        seqs.append((vals + [v], e, cc))
        for vals, j, c in finished:
            if len(vals) <= 1 and False:
                out.add(j, c)
                continue
            I = kernel.Interp(self.g.dump, profile="release")
            lst = kernel.SVec(vals)

            def thunk(I, lst=lst):
                return I.call_fn(pfile, pfn, [kernel.SVec(lst)])
            try:
                paths = I.explore(thunk)
            except kernel.Unsupported as e:
                raise Unsupported("verify by function: %s" % e)
            good = False
            for p in paths:
                if p["kind"] != "ret":
                    raise Unsupported("verify by function: the predicate can panic")
                rv = p["value"]
                if rv is True or (not isinstance(rv, bool) and rv is not False):
                    pc = And(*p["pc"]) if p["pc"] else True
                    good = Or(good, pc if rv is True else And(pc, rv))
            out.add(j, And(c, good))
        return out

    def _out_paths(self, node, i):
        """[(value, end, cond)]: the output of applying `node` at i, as an S-kernel value, per concrete span structure"""
        from . import kernel
        k = node.kind
        if k == "ref":
            return self._out_paths(self.g.body_of(node), i)
        if k == "map":
            f = node.arg
            if isinstance(f, dict) and f.get("k") == "path" and f["segs"][-1] == "from" and len(f["segs"]) >= 2:
                ty = f["segs"][-2]
                fields = self.g.from_fields(ty)
                inner = node.kids[0]
                while inner.kind in ("map", "recognize") and inner.kind != "seq":
                    if inner.kind == "map" and inner.arg is not None:
                        break
                    inner = inner.kids[0]
                if fields and inner.kind == "seq" and len(inner.roles) == len(fields):
                    res = []
                    for vals, e, c in self._seq_out_paths(inner, i):
                        o = kernel.Obj(ty, dict(zip(fields, vals)))
                        res.append((o, e, c))
                    return res
            # any other mapped value: the text it consumed identifies it (outputs are injective functions of the text)
            return [(self._text(i, e), e, c) for e, c in self.ends(node, i).items()]
        if k == "seq":
            res = []
            for vals, e, c in self._seq_out_paths(node, i):
                res.append((vals[0] if len(vals) == 1 else tuple(vals), e, c))
            return res
        return [(self._text(i, e), e, c) for e, c in self.ends(node, i).items()]

    def _seq_out_paths(self, seq, i):
        """outputs of the role members of a sequence: [(list of values, end, cond)]"""
        paths = [([], i, True)]
        for idx, member in enumerate(seq.kids):
            nxt = []
            for vals, j, c in paths:
                if idx in seq.roles:
                    for v, e, ce in self._out_paths(member, j):
                        cc = And(c, ce)
                        if cc is not False:
                            nxt.append((vals + [v], e, cc))
                else:
                    for e, ce in self.ends(member, j).items():
                        cc = And(c, ce)
                        if cc is not False:
                            nxt.append((vals, e, cc))
            paths = nxt
        return paths

    def _text(self, i, e):
        from . import kernel
        return kernel.SStr(kernel.Ch(self.inp[p]) for p in range(i, e))

    def _spans(self, member, start, target):
        from . import active
        key = ("spans", member.id, start, target.id)
        r = self.memo.get(key)
        if r is None:
            r = []
            for (nid, q), (node, a) in active.activation_from(self, member, start, True).items():
                if nid == target.id:
                    for e, ce in self.ends(node, q).items():
                        v = And(a, ce)
                        if v is not False:
                            r.append((q, e, v))
            self.memo[key] = r
        return r

    # ---- work semantics: how many production entries nom performs (no memoisation, failed alternatives counted)

    WB = 40

    def _wsum(self, terms):
        import z3
        tot = 0
        sym_terms = []
        for t in terms:
            if isinstance(t, int):
                tot += t
            else:
                sym_terms.append(t)
        if not sym_terms:
            return tot
        acc = sym_terms[0]
        for t in sym_terms[1:]:
            acc = acc + t
        if tot:
            acc = acc + z3.BitVecVal(tot, self.WB)
        return acc

    def _wif(self, cond, w):
        import z3
        if cond is True:
            return w
        if cond is False or (isinstance(w, int) and w == 0):
            return 0
        if isinstance(w, int):
            w = z3.BitVecVal(w, self.WB)
        return z3.If(cond, w, z3.BitVecVal(0, self.WB))

    def work(self, node, i):
        key = ("W", node.arg, i) if node.kind == "ref" else ("W", node.id, i)
        r = self.memo.get(key)
        if r is not None:
            return r
        k = node.kind
        if k == "ref":
            r = self._wsum([1, self.work(self.g.body_of(node), i)])
        elif k in ("tag", "tag_nc", "class0", "class1", "one", "eof"):
            r = 0
        elif k in ("map", "recognize", "opt", "take_until", "take_except", "verify", "peek", "not", "all_consuming"):
            r = self.work(node.kids[0], i)
        elif k == "seq":
            terms = []
            cur = {i: True}
            for kid in node.kids:
                nxt = {}
                for j, cj in cur.items():
                    terms.append(self._wif(cj, self.work(kid, j)))
                    for e, ce in self.ends(kid, j).items():
                        v = And(cj, ce)
                        if v is not False:
                            nxt[e] = Or(nxt.get(e, False), v)
                cur = nxt
            r = self._wsum(terms)
        elif k == "alt":
            terms = []
            none_before = True
            for kid in node.kids:
                terms.append(self._wif(none_before, self.work(kid, i)))
                none_before = And(none_before, Not(self.ends(kid, i).ok()))
                if none_before is False:
                    break
            r = self._wsum(terms)
        elif k in ("many0", "many1"):
            kid = node.kids[0]
            terms = []
            heads = {i: True}
            for j in range(i, self.L + 1):
                h = heads.pop(j, False)
                if h is False:
                    continue
                terms.append(self._wif(h, self.work(kid, j)))
                for e, ce in self.ends(kid, j).items():
                    if e > j:
                        heads[e] = Or(heads.get(e, False), And(h, ce))
            r = self._wsum(terms)
        elif k in ("separated_list0", "separated_list1"):
            sep, f = node.kids
            terms = [self.work(f, i)]
            heads = {}
            for e, ce in self.ends(f, i).items():
                heads[e] = Or(heads.get(e, False), ce)
            for j in range(i, self.L + 1):
                h = heads.pop(j, False)
                if h is False:
                    continue
                terms.append(self._wif(h, self.work(sep, j)))
                for e, cs in self.ends(sep, j).items():
                    if e == j:
                        continue
                    terms.append(self._wif(And(h, cs), self.work(f, e)))
                    for m, cf in self.ends(f, e).items():
                        heads[m] = Or(heads.get(m, False), And(h, cs, cf))
            r = self._wsum(terms)
        else:
            raise Unsupported("work semantics of %s" % k)
        self.memo[key] = r
        return r

    # convenience

    def accepts_all(self, node, i=0):
        r = self.ends(node, i)
        return r.get(self.L, False)

    def accepts_some(self, node, i=0):
        return self.ends(node, i).ok()


def concrete_end(grammar, node, s):
    """run concretely: returns end position or None"""
    run = Run(grammar, sym.Input.concrete(s))
    r = run.ends(node, 0)
    hits = [j for j, c in r.items() if c is True]
    if any(not isinstance(c, bool) for c in r.values()):
        raise Unsupported("non-concrete condition in concrete run")
    if len(hits) > 1:
        raise Unsupported("ambiguous concrete result %r" % hits)
    return hits[0] if hits else None
